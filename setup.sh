#!/bin/sh
# Build the framework from files on disk only (offline) and parse every specification.
set -e
cd "$(dirname "$0")"
export GOFLAGS=-mod=mod GOPROXY=off
cp /repo/go.sum harness/go.sum 2>/dev/null || true
(cd harness && go build -tags verif -o /dev/null ./cmd/vdrv)
S=$(mktemp -d /dev/shm/verif-setup.XXXXXX 2>/dev/null || mktemp -d)
trap 'rm -rf "$S"' EXIT
cp spec/*.tla "$S"/
for f in "$S"/*.tla; do
  (cd "$S" && timeout 120 java -DTLA-Library=/opt/veriftools/tlapm/lib/tlapm/stdlib -cp /opt/veriftools/tla/tla2tools.jar:/opt/veriftools/tla/CommunityModules-deps.jar tla2sany.SANY "$(basename "$f")" >"$f.sany" 2>&1) || { cat "$f.sany"; echo "SANY failed on $f"; exit 1; }
done
echo "setup ok"
