SPECIFICATION Spec
CONSTANTS
  Keys = {"a", "b"}
  Vals = {"v1"}
  MaxOps = 3
  MaxGen = 4
  MaxWal = 3
  MaxCrash = 3
  DropTombAlways = FALSE
  SizeRotate = FALSE
  WalRemoveAnyOrder = FALSE
  RecFinishRenameFirst = FALSE
  Async = FALSE
  RotateDropsBuffer = FALSE
  RotateInflight = FALSE
INVARIANTS CrashSafe ReadsLikeMap
PROPERTIES StepProperty
CHECK_DEADLOCK FALSE
