SPECIFICATION Spec
CONSTANTS
  Classes = {"NIL", "EMPTY", "A", "B"}
  MaxSteps = 9
  MaxSeeks = 3
INVARIANTS GenLeaf
CHECK_DEADLOCK FALSE
