SPECIFICATION Spec
CONSTANTS
  Keys = {0, 1}
  NT = 3
  DropAlways = TRUE
INVARIANTS CompactPreservesReads GapFree 
CHECK_DEADLOCK FALSE
