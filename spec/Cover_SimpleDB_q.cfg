SPECIFICATION CSpec
CONSTANTS
  Keys = {0, 1}
  Vals = {"a"}
  Clients = {"c1"}
  MaxOps = 2
  MaxTables = 3
  MaxSessions = 2
  Cfgs <- CfgsSmall
  DropTombAlways = FALSE
  BufferedHandoff = FALSE
  MaxHist = 14
ACTION_CONSTRAINT Cover
VIEW CView
CHECK_DEADLOCK FALSE
