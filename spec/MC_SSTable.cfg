SPECIFICATION Spec
CONSTANTS
  Ranks = {0, 1, 2, 3}
  Vals = {"vA", "EMPTY", "NIL"}
  Faults = {"", "data", "index"}
  MaxWrites = 4
INVARIANTS TableIsAcceptedWrites MetaTruthful ReadsConsistent
PROPERTIES RejectedOrFailedIsNoOp
CHECK_DEADLOCK FALSE
