----------------------------- MODULE KVLinTrace -----------------------------
(* Black-box linearizability judge for recorded invocation/response histories of one key (locality: a map is linearizable
   iff every key's sub-history is; the runner projects the history per key into separate cases - a projection of logged
   events that keeps the real-time order).  The abstract object is KVStore.tla restricted to one key: a register with
   put(v) / del / get.  Internal Lin steps are taken just in time (only directly before a ret line).
   Lines: {"t":"reset","case":n} {"t":"inv","g":id,"op":"put|del|get","v":tok} {"t":"ret","g":id,"r":"ok"|tok|"none"}      *)
EXTENDS Naturals, Sequences, FiniteSets, TLC, Json, IOUtils
Trace == ndJsonDeserialize(IOEnv.TRACE)
NONE == "none"
VARIABLES m, pend, l
vars == <<m, pend, l>>
Init == TLCSet(7, 0) /\ m = NONE /\ pend = <<>> /\ l = 1
Ev == Trace[l]
Reset == /\ l <= Len(Trace) /\ Ev.t = "reset" /\ pend = <<>>      \* a case may only end when every call has returned
         /\ m' = NONE /\ pend' = <<>> /\ l' = l + 1
Inv == /\ l <= Len(Trace) /\ Ev.t = "inv" /\ Ev.g \notin DOMAIN pend
       /\ pend' = pend @@ (Ev.g :> [op |-> Ev.op, v |-> Ev.v, done |-> FALSE, res |-> NONE])
       /\ l' = l + 1 /\ UNCHANGED m
Lin(g) == /\ g \in DOMAIN pend /\ ~pend[g].done /\ l <= Len(Trace) /\ Ev.t = "ret"
          /\ LET p == pend[g] IN
             /\ m' = IF p.op = "put" THEN p.v ELSE IF p.op = "del" THEN NONE ELSE m
             /\ pend' = [pend EXCEPT ![g] = [p EXCEPT !.done = TRUE, !.res = IF p.op = "get" THEN m ELSE "ok"]]
          /\ UNCHANGED l
Ret == /\ l <= Len(Trace) /\ Ev.t = "ret" /\ Ev.g \in DOMAIN pend /\ pend[Ev.g].done /\ pend[Ev.g].res = Ev.r
       /\ pend' = [x \in DOMAIN pend \ {Ev.g} |-> pend[x]]
       /\ l' = l + 1 /\ UNCHANGED m
Next == Reset \/ Inv \/ Ret \/ \E g \in DOMAIN pend : Lin(g)
Spec == Init /\ [][Next]_vars
HW == TLCSet(7, IF l > TLCGet(7) THEN l ELSE TLCGet(7))
Report == PrintT(<<"HW", TLCGet(7)>>)
=============================================================================
