---------------------------- MODULE SimpleDBApi ----------------------------
(* C17: the argument-validation layer of db.go (Put/PutBytes, Delete/DeleteBytes, Get/GetBytes).
   State: the WAL (sequence of logged mutations - it is part of the state, a rejected call must not reach it), the visible map,
   and whether the visible part has been flushed.  Key / value classes: "nil", "empty", "ok" (a string argument cannot be nil:
   the string flavour maps "nil" to "empty").  Observation modes are actions: Flush (rotation + flush), Reopen (clean restart),
   CrashRecover (WAL replay) - none of them may change what a key reads as.                                                    *)
EXTENDS Integers, Sequences, FiniteSets, TLC, Json
CONSTANTS Keys, Vals, MaxCalls,
          LogBeforeValidate   \* TRUE = PutBytes logs to the WAL before validating (code before the fix) - negative self-test
NONE == "none"
Flavors == {"string", "bytes"}
Classes == {"nil", "empty", "ok"}
VARIABLES map, wal, tables, lastRej, hist
vars == <<map, wal, tables, lastRej, hist>>
Norm(fl, c) == IF fl = "string" /\ c = "nil" THEN "empty" ELSE c
\* documented contract: Put rejects empty/nil keys and values (ErrEmptyKeyValue), in both flavours alike
PutVerdict(fl, kc, vc) == IF Norm(fl, kc) = "ok" /\ Norm(fl, vc) = "ok" THEN "ok" ELSE "rejected"
Init == map = [k \in Keys |-> NONE] /\ wal = <<>> /\ tables = [k \in Keys |-> NONE] /\ lastRej = FALSE /\ hist = <<>>
Replay(base, w) == LET RECURSIVE ap(_, _)
                       ap(m, i) == IF i > Len(w) THEN m ELSE ap([m EXCEPT ![w[i].k] = w[i].v], i + 1)
                   IN ap(base, 1)
H(e) == hist' = Append(hist, e)
Put(fl, kc, vc, k, v) ==
  /\ Len(hist) < MaxCalls
  /\ LET verdict == PutVerdict(fl, kc, vc) IN
     /\ IF verdict = "ok" THEN map' = [map EXCEPT ![k] = v] /\ wal' = Append(wal, [k |-> k, v |-> v])
        ELSE /\ map' = map
             /\ wal' = IF LogBeforeValidate /\ fl = "bytes" /\ kc = "ok" THEN Append(wal, [k |-> k, v |-> IF vc = "ok" THEN v ELSE NONE]) ELSE wal
     /\ lastRej' = (verdict # "ok")
     /\ H([a |-> "put", fl |-> fl, kc |-> kc, vc |-> vc, k |-> k, v |-> v, r |-> verdict])
  /\ UNCHANGED tables
Del(fl, k) ==
  /\ Len(hist) < MaxCalls
  /\ map' = [map EXCEPT ![k] = NONE] /\ wal' = Append(wal, [k |-> k, v |-> NONE]) /\ lastRej' = FALSE
  /\ H([a |-> "del", fl |-> fl, kc |-> "ok", vc |-> "ok", k |-> k, v |-> "", r |-> "ok"]) /\ UNCHANGED tables
Flush == /\ Len(hist) < MaxCalls /\ wal # <<>> /\ tables' = Replay(tables, wal) /\ wal' = <<>> /\ UNCHANGED map /\ lastRej' = FALSE
         /\ H([a |-> "flush", fl |-> "", kc |-> "", vc |-> "", k |-> 0, v |-> "", r |-> ""])
Reopen == /\ Len(hist) < MaxCalls /\ tables' = Replay(tables, wal) /\ wal' = <<>> /\ map' = Replay(tables, wal) /\ lastRej' = FALSE
          /\ H([a |-> "reopen", fl |-> "", kc |-> "", vc |-> "", k |-> 0, v |-> "", r |-> ""])
CrashRecover == /\ Len(hist) < MaxCalls /\ UNCHANGED <<map, wal, tables>> /\ lastRej' = FALSE
                /\ H([a |-> "crashcheck", fl |-> "", kc |-> "", vc |-> "", k |-> 0, v |-> "", r |-> ""])
Next == \/ \E fl \in Flavors, kc \in Classes, vc \in Classes, k \in Keys, v \in Vals : Put(fl, kc, vc, k, v)
        \/ \E fl \in Flavors, k \in Keys : Del(fl, k)
        \/ Flush \/ Reopen \/ CrashRecover
Spec == Init /\ [][Next]_vars
\* ---- properties
Recovered == Replay(tables, wal)                       \* what a crash + recovery would read
RejectedIsNoOp == [][lastRej' => map' = map /\ wal' = wal /\ tables' = tables]_vars
RecoveryAgrees == Recovered = map                      \* reads never depend on flush / restart / crash
SameVerdict == \A kc \in Classes, vc \in Classes : Norm("bytes", kc) = Norm("string", kc) /\ Norm("bytes", vc) = Norm("string", vc)
                   => PutVerdict("string", kc, vc) = PutVerdict("bytes", kc, vc)
GenLeaf == Len(hist) = MaxCalls => PrintT(<<"BEH", ToJson(hist)>>)
View == <<map, wal, tables, lastRej, Len(hist)>>
=============================================================================
