SPECIFICATION TSpec
CONSTANTS
  MaxCalls = 0
INVARIANTS Report
CHECK_DEADLOCK FALSE
