---------------------------- MODULE MemStore ----------------------------
(* memstore/memstore.go as a map with tombstones (property C14).
   One action per public call (sequential library: linearization point = return of the call).
   The state is sparse: DOMAIN m = keys ever inserted; m[k] = [v, vl, kl] with v = "TOMB" for tombstones.
   est is the code's estimatedSize (before the 1.15 overhead factor), tracked exactly.            *)
EXTENDS Integers, Sequences, FiniteSets, TLC, SequencesExt, Functions, Json

CONSTANTS Keys,      \* key ranks 0 < 1 < ... (rank order = byte order of the concrete keys; rank 0 may be the empty key)
          Vals,      \* value tokens, "EMPTY" is the empty non-nil value
          KLen, VLen,\* functions token -> byte length
          MaxCalls

TOMB == "TOMB"
NIL  == "NIL"
NILK == -1          \* the nil key

\* ------------------------------------------------------------------ pure semantics (shared with the trace module)
Has(m, k)      == k \in DOMAIN m
IsVal(m, k)    == Has(m, k) /\ m[k].v # TOMB
IsTomb(m, k)   == Has(m, k) /\ m[k].v = TOMB
Put(m, k, rec) == [x \in DOMAIN m \cup {k} |-> IF x = k THEN rec ELSE m[x]]

\* call = [op, k, v, kl, vl]; returns [m, est, r]
Apply(m, est, c) ==
  CASE c.op \in {"Add", "Upsert"} ->
         IF c.k = NILK THEN [m |-> m, est |-> est, r |-> "KeyNil"]
         ELSE IF c.v = NIL THEN [m |-> m, est |-> est, r |-> "ValueNil"]
         ELSE IF c.op = "Add" /\ IsVal(m, c.k) THEN [m |-> m, est |-> est, r |-> "KeyAlreadyExists"]
         ELSE IF Has(m, c.k)
              THEN [m |-> Put(m, c.k, [v |-> c.v, vl |-> c.vl, kl |-> c.kl]), est |-> est - m[c.k].vl + c.vl, r |-> "ok"]
              ELSE [m |-> Put(m, c.k, [v |-> c.v, vl |-> c.vl, kl |-> c.kl]), est |-> est + c.kl + c.vl, r |-> "ok"]
    [] c.op = "Delete" ->
         IF ~Has(m, c.k) THEN [m |-> m, est |-> est, r |-> "KeyNotFound"]
         ELSE [m |-> Put(m, c.k, [v |-> TOMB, vl |-> 0, kl |-> m[c.k].kl]), est |-> est - m[c.k].vl, r |-> "ok"]
    [] c.op = "DeleteIfExists" ->
         IF ~Has(m, c.k) THEN [m |-> m, est |-> est, r |-> "ok"]
         ELSE [m |-> Put(m, c.k, [v |-> TOMB, vl |-> 0, kl |-> m[c.k].kl]), est |-> est - m[c.k].vl, r |-> "ok"]
    [] c.op = "Tombstone" ->
         IF ~Has(m, c.k) THEN [m |-> Put(m, c.k, [v |-> TOMB, vl |-> 0, kl |-> c.kl]), est |-> est + c.kl, r |-> "ok"]
         ELSE [m |-> Put(m, c.k, [v |-> TOMB, vl |-> 0, kl |-> m[c.k].kl]), est |-> est - m[c.k].vl, r |-> "ok"]
    [] c.op = "Get" ->
         [m |-> m, est |-> est, r |-> IF ~Has(m, c.k) THEN "KeyNotFound" ELSE IF IsTomb(m, c.k) THEN "KeyTombstoned" ELSE m[c.k].v]
    [] c.op = "Contains" -> [m |-> m, est |-> est, r |-> IF IsVal(m, c.k) THEN "true" ELSE "false"]
    [] c.op = "IsTombstoned" -> [m |-> m, est |-> est, r |-> IF IsTomb(m, c.k) THEN "true" ELSE "false"]
    [] OTHER -> [m |-> m, est |-> est, r |-> "?"]

\* observers (token order is the byte order, established by the harness' order preserving encodings)
SortedKeys(m) == SetToSortSeq(DOMAIN m, LAMBDA a, b : a < b)
Iteration(m)  == LET ks == SortedKeys(m) IN [i \in 1..Len(ks) |-> <<ks[i], IF m[ks[i]].v = TOMB THEN NIL ELSE m[ks[i]].v>>]
\* what a table reader sees after the flush: nil and empty values both read back with length zero ("ZERO")
ZeroClass(v)  == IF v \in {TOMB, NIL, "EMPTY"} THEN "ZERO" ELSE v
FlushTable(m, withTomb) ==
  LET ks == SelectSeq(SortedKeys(m), LAMBDA k : withTomb \/ m[k].v # TOMB)
  IN [i \in 1..Len(ks) |-> <<ks[i], ZeroClass(m[ks[i]].v)>>]
SizeOf(m) == Cardinality(DOMAIN m)
\* the exact sum the estimate stands for
RECURSIVE SumOver(_, _)
SumOver(m, S) == IF S = {} THEN 0 ELSE LET k == CHOOSE x \in S : TRUE IN m[k].kl + m[k].vl + SumOver(m, S \ {k})
\* reported = uint64(1.15 * float32(est)); float32 rounding allowed for, a wrap below zero is not
EstOk(est, reported) == reported * 100 >= est * 100 /\ reported * 100 <= est * 116 + 200

\* ------------------------------------------------------------------ state machine (exhaustive small scope)
VARIABLES m, est, last, hist
vars == <<m, est, last, hist>>
NoCall == [op |-> "-", k |-> NILK, v |-> NIL, r |-> "-"]

Init == m = <<>> /\ est = 0 /\ hist = <<>> /\ last = NoCall

Call(op, k, v) ==
  LET c == [op |-> op, k |-> k, v |-> v,
            kl |-> IF k = NILK THEN 0 ELSE KLen[k], vl |-> IF v = NIL THEN 0 ELSE VLen[v]]
      a == Apply(m, est, c)
  IN /\ Len(hist) < MaxCalls
     /\ m' = a.m /\ est' = a.est
     /\ last' = [op |-> op, k |-> k, v |-> v, r |-> a.r]
     /\ hist' = Append(hist, last')

Next == \/ \E k \in Keys \cup {NILK}, v \in Vals \cup {NIL} : Call("Add", k, v) \/ Call("Upsert", k, v)
        \/ \E k \in Keys : \E op \in {"Delete", "DeleteIfExists", "Tombstone", "Get", "Contains", "IsTombstoned"} : Call(op, k, NIL)

Spec == Init /\ [][Next]_vars

\* ------------------------------------------------------------------ properties of the design
EstNeverNegative == est >= 0
EstIsSum         == est = SumOver(m, DOMAIN m)
TombstoneStays   == [][\A k \in DOMAIN m : k \in DOMAIN m']_vars          \* a deleted key stays present as a tombstone
IterationSorted  == LET it == Iteration(m) IN \A i \in 1..(Len(it) - 1) : it[i][1] < it[i + 1][1]
FlushSubset      == Len(FlushTable(m, FALSE)) <= Len(FlushTable(m, TRUE)) /\ Len(FlushTable(m, TRUE)) = SizeOf(m)
\* read-your-write
LastWriteWins    == last.op \in {"Add", "Upsert"} /\ last.r = "ok" => Apply(m, est, [op |-> "Get", k |-> last.k]).r = last.v
DeleteHides      == last.op \in {"Delete", "Tombstone"} /\ last.r = "ok" => Apply(m, est, [op |-> "Get", k |-> last.k]).r = "KeyTombstoned"
RejectedNoEffect == [][last'.r \in {"KeyNil", "ValueNil", "KeyAlreadyExists", "KeyNotFound"} => m' = m /\ est' = est]_vars
View == <<m, est, last, Len(hist)>>

\* generation of behaviours for replay: print every maximal history
GenLeaf == Len(hist) = MaxCalls => PrintT(<<"BEH", ToJson(hist)>>)
MC_KLen == [k \in Keys |-> IF k = 0 THEN 0 ELSE 3]
MC_VLen == [v \in Vals |-> IF v = "EMPTY" THEN 0 ELSE IF v = "vA" THEN 2 ELSE 7]
=============================================================================
