------------------------------ MODULE SSTable ------------------------------
(* sstables: a table as a sorted map over key ranks (C03), the stream writer's accept / reject / roll-back rule and metadata
   (C15), and the outcome classes of reading a damaged data file (C09).
   Writer (sstable_writer.go WriteNext): a key not strictly greater than the last ACCEPTED key is rejected; a write that fails at
   the data-append or index-append step is rolled back (no effect); Close writes metadata of exactly the accepted writes.
   Reader (sstable_reader.go + index loaders): Contains / Get / Scan / ScanStartingAt / ScanRange of a sorted map.            *)
EXTENDS Integers, Sequences, FiniteSets, TLC, SequencesExt, Json

\* ------------------------------------------------------------------ pure semantics (shared with SSTableTrace)
\* acc: sequence of <<rank, value token>> in acceptance order
LastKey(acc)  == IF acc = <<>> THEN -1 ELSE acc[Len(acc)][1]
WriteReply(acc, k, fault) == IF k <= LastKey(acc) THEN "rejected" ELSE IF fault # "" THEN "ioerr" ELSE "ok"
WriteNext(acc, k, v, fault) == IF WriteReply(acc, k, fault) = "ok" THEN Append(acc, <<k, v>>) ELSE acc
Ascending(acc) == \A i \in 1..(Len(acc) - 1) : acc[i][1] < acc[i + 1][1]
KeysOf(acc)   == {acc[i][1] : i \in 1..Len(acc)}
Lookup(acc, k) == LET S == {i \in 1..Len(acc) : acc[i][1] = k} IN IF S = {} THEN "NotFound" ELSE acc[CHOOSE i \in S : TRUE][2]
HasKey(acc, k) == k \in KeysOf(acc)
Scan(acc)     == acc
ScanFrom(acc, p) == SelectSeq(acc, LAMBDA e : e[1] >= p)
ScanRange(acc, lo, hi) == IF lo > hi THEN "error" ELSE SelectSeq(acc, LAMBDA e : e[1] >= lo /\ e[1] <= hi)
Meta(acc)     == [n |-> Len(acc), nulls |-> Cardinality({i \in 1..Len(acc) : acc[i][2] = "NIL"}),
                  min |-> IF acc = <<>> THEN -1 ELSE acc[1][1], max |-> LastKey(acc)]
\* C09: what reading key k of a damaged table may yield: the open fails, the read fails, or the ORIGINAL value (never another one);
\* empty and nil values carry a zero checksum by format design and are only required to stay empty / nil
DamageOk(orig, outcome) == \/ outcome \in {"openFailed", "readFailed", orig}
                           \/ orig \in {"EMPTY", "NIL"} /\ outcome \in {"EMPTY", "NIL"}

\* ------------------------------------------------------------------ small-scope state machine: all WriteNext sequences with faults
CONSTANTS Ranks, Vals, Faults, MaxWrites
VARIABLES acc, hist
vars == <<acc, hist>>
Init == acc = <<>> /\ hist = <<>>
Write(k, v, f) == /\ Len(hist) < MaxWrites
                  /\ acc' = WriteNext(acc, k, v, f)
                  /\ hist' = Append(hist, [k |-> k, v |-> v, fault |-> f, r |-> WriteReply(acc, k, f)])
Next == \E k \in Ranks, v \in Vals, f \in Faults : Write(k, v, f)
Spec == Init /\ [][Next]_vars

\* C15
TableIsAcceptedWrites == Ascending(acc) /\ acc = [i \in 1..Len(SelectSeq(hist, LAMBDA h : h.r = "ok")) |->
                                                   LET h == SelectSeq(hist, LAMBDA x : x.r = "ok")[i] IN <<h.k, h.v>>]
RejectedOrFailedIsNoOp == [][hist'[Len(hist')].r # "ok" => acc' = acc]_vars
MetaTruthful == Meta(acc).n = Cardinality(KeysOf(acc)) /\ (acc # <<>> => Meta(acc).min = acc[1][1] /\ \A k \in KeysOf(acc) : Meta(acc).min <= k /\ k <= Meta(acc).max)
\* C03: the read operations are mutually consistent views of one sorted map
ReadsConsistent ==
  /\ \A k \in Ranks : HasKey(acc, k) <=> Lookup(acc, k) # "NotFound"
  /\ \A p \in Ranks : ScanFrom(acc, p) = ScanRange(acc, p, 1000)
  /\ \A lo, hi \in Ranks : lo <= hi => ScanRange(acc, lo, hi) = SelectSeq(Scan(acc), LAMBDA e : e[1] >= lo /\ e[1] <= hi)
  /\ \A lo, hi \in Ranks : lo > hi => ScanRange(acc, lo, hi) = "error"
  /\ Ascending(Scan(acc))
GenLeaf == Len(hist) = MaxWrites => PrintT(<<"BEH", ToJson(hist)>>)
=============================================================================
