------------------------------ MODULE Scanners ------------------------------
(* C19, library level: one table reader and the scanners created from it.  A scanner owns a handle on the data file from New until it
   is exhausted (the implementation may release it right then) or until the READER is closed - Close releases whatever the scanners
   still hold, in whatever order they were created, used, exhausted or abandoned.  TLC enumerates every interleaving of the life cycles
   of up to three scanners followed by Close (GenLeaf prints each as a script); the harness executes the scripts on a real reader and
   observes /proc/self/fd and /proc/self/maps: bounded while open, nothing left after Close.                                        *)
EXTENDS Naturals, Sequences, FiniteSets, TLC, Json
CONSTANTS S, MaxSteps
VARIABLES st,      \* scanner -> "none" | "open" | "done"
          steps,   \* scanner -> Next calls so far
          reader,  \* "open" | "closed"
          held,    \* set of scanners whose handle is (possibly) still held
          hist
vars == <<st, steps, reader, held, hist>>
Init == st = [s \in S |-> "none"] /\ steps = [s \in S |-> 0] /\ reader = "open" /\ held = {} /\ hist = <<>>
L(a, s) == hist' = Append(hist, [a |-> a, s |-> s])
\* scanners are created in index order (they are interchangeable)
New(s) == /\ reader = "open" /\ st[s] = "none" /\ \A t \in S : t < s => st[t] # "none"
          /\ st' = [st EXCEPT ![s] = "open"] /\ held' = held \cup {s} /\ L("new", s) /\ UNCHANGED <<steps, reader>>
Step(s) == /\ reader = "open" /\ st[s] = "open" /\ steps[s] < MaxSteps
           /\ steps' = [steps EXCEPT ![s] = @ + 1] /\ L("step", s) /\ UNCHANGED <<st, reader, held>>
Exhaust(s) == /\ reader = "open" /\ st[s] = "open"
              /\ st' = [st EXCEPT ![s] = "done"] /\ L("drain", s) /\ UNCHANGED <<steps, reader>>
              /\ held' \in {held, held \ {s}}          \* eager release is allowed, not required
Close == /\ reader = "open" /\ reader' = "closed" /\ held' = {} /\ L("close", 0) /\ UNCHANGED <<st, steps>>
Next == Close \/ \E s \in S : New(s) \/ Step(s) \/ Exhaust(s)
Spec == Init /\ [][Next]_vars
ClosedReleasesAll == reader = "closed" => held = {}
BoundedWhileOpen == Cardinality(held) <= Cardinality(S)
GenLeaf == reader = "closed" => PrintT(<<"BEH", ToJson(hist)>>)
=============================================================================
