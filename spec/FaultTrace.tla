----------------------------- MODULE FaultTrace -----------------------------
(* C11, session level: outcome of a database session in which one output append of a flush (also the flush of the replayed log inside
   Open: target "recflush") or of a compaction failed
   (ENOSPC injected into write(2) by strace, or the compaction's stream writer failing through the verif hook).
   FaultIsReported: a fault that was hit is reported (an API call returns an error or the process stops) and never hangs;
   NotInstalled: a compaction whose output is incomplete is never reflected in place of its inputs; afterwards the directory still
   opens and reads like the reference map (the failed output is not visible).                                                   *)
EXTENDS Naturals, Sequences, TLC, Json, IOUtils
Trace == ndJsonDeserialize(IOEnv.TRACE)
VARIABLES l, bad, nok
vars == <<l, bad, nok>>
Init == l = 1 /\ bad = <<>> /\ nok = 0
Ev == Trace[l]
\* Ev.records: the failing append belongs to a file that carries records (data / index / metadata); the bloom filter file does not -
\* a failure there need not be reported, but it must never hang or change what is read.
Check == IF ~Ev.hit THEN "ok"
         ELSE IF Ev.hang THEN "fault-hang"
         ELSE IF Ev.records /\ ~Ev.reported THEN "fault-absorbed"
         \* ("damagecompact": an input table was damaged on disk before the compaction read it - the read of that record fails its check)
         ELSE IF Ev.target \in {"compact", "damagecompact"} /\ Ev.installed THEN "failed-compaction-installed"
         \* the inputs of a failed compaction are untouched: the directory opens and reads like the reference map
         ELSE IF Ev.target = "compact" /\ ~Ev.reopenOk THEN "reopen-failed-after-failed-compaction"
         ELSE IF (Ev.target = "compact" \/ ~Ev.reported) /\ Ev.reopenOk /\ Ev.m # Ev.model THEN "reads-differ-after-fault"
         \* the flush of the replayed log failed inside Open: whatever Open said, the log must still be there for the next Open
         ELSE IF Ev.target = "recflush" /\ Ev.reopenOk /\ Ev.m # Ev.model THEN "acknowledged-writes-lost-after-failed-recovery-flush"
         ELSE "ok"
Step == /\ l <= Len(Trace) /\ l' = l + 1
        /\ LET c == Check IN IF c = "ok" THEN nok' = nok + 1 /\ UNCHANGED bad
                             ELSE bad' = Append(bad, [case |-> Ev.case, line |-> l, clause |-> c, ev |-> ToString(Ev)]) /\ UNCHANGED nok
Spec == Init /\ [][Step]_vars
Report == (l = Len(Trace) + 1) => PrintT(<<"VERDICT", nok, ToJson(bad)>>)
=============================================================================
