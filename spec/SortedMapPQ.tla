---------------------------- MODULE SortedMapPQ ----------------------------
(* C16: skiplist/map_generic.go as a sorted map (set-of-keys semantics: the answers do not depend on the insertion order) and
   pq/priority_queue.go as a sorted k-way merge (multiset of all elements, non-descending keys, identity of the input, each
   input's own order preserved).                                                                                          *)
EXTENDS Integers, Sequences, FiniteSets, TLC, SequencesExt, Json
\* ------------------------------------------------------------------ pure semantics (shared with the trace module)
SortedSeq(S) == SetToSortSeq(S, LAMBDA a, b : a < b)
IterAll(S) == SortedSeq(S)
IterFrom(S, p) == SortedSeq({k \in S : k >= p})
IterBetween(S, lo, hi) == SortedSeq({k \in S : k >= lo /\ k <= hi})      \* lo > hi must be rejected instead
\* an iterator that is open while keys are inserted (S0 = keys at its creation, S1 = keys when it is drained): ascending, inside its bounds,
\* nothing that was never inserted, and nothing missing that was there from the start
LiveIterOk(S0, S1, kind, lo, hi, out) ==
  LET In(k) == IF kind = "all" THEN TRUE ELSE IF kind = "from" THEN k >= lo ELSE k >= lo /\ k <= hi IN
  /\ \A i \in 1..(Len(out) - 1) : out[i] < out[i + 1]
  /\ \A i \in 1..Len(out) : out[i] \in S1 /\ In(out[i])
  /\ \A k \in S0 : In(k) => \E i \in 1..Len(out) : out[i] = k
\* k-way merge: out is a sequence of <<key, input index>>
RECURSIVE Flatten(_, _)
Flatten(inputs, i) == IF i > Len(inputs) THEN {} ELSE {<<inputs[i][j], i, j>> : j \in 1..Len(inputs[i])} \cup Flatten(inputs, i + 1)
NonDescending(out) == \A i \in 1..(Len(out) - 1) : out[i][1] <= out[i + 1][1]
\* every element of every input exactly once: the positions of input c in out carry exactly input c, in order
OfInput(out, c) == LET idx == SelectSeq([i \in 1..Len(out) |-> i], LAMBDA i : out[i][2] = c) IN [n \in 1..Len(idx) |-> out[idx[n]][1]]
MergeOk(inputs, out) == /\ Len(out) = Cardinality(Flatten(inputs, 1))
                        /\ NonDescending(out)
                        /\ \A c \in 1..Len(inputs) : OfInput(out, c) = inputs[c]
                        /\ \A i \in 1..Len(out) : out[i][2] \in 1..Len(inputs)

\* ------------------------------------------------------------------ small scope: every insertion order of every key set
CONSTANTS Keys, MaxLen
VARIABLES S, hist
vars == <<S, hist>>
Init == S = {} /\ hist = <<>>
Insert(k) == k \notin S /\ Len(hist) < MaxLen /\ S' = S \cup {k} /\ hist' = Append(hist, k)
Next == \E k \in Keys : Insert(k)
Spec == Init /\ [][Next]_vars
OrderIndependent == S = {hist[i] : i \in 1..Len(hist)} /\ Len(IterAll(S)) = Len(hist)
IteratorsConsistent == \A p \in Keys : IterFrom(S, p) = IterBetween(S, p, 1000) /\ \A q \in Keys : p <= q => IterBetween(S, p, q) = SelectSeq(IterAll(S), LAMBDA k : k >= p /\ k <= q)
Emit == PrintT(<<"BEH", ToJson(hist)>>)
=============================================================================
