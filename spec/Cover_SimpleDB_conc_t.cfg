SPECIFICATION CSpec
CONSTANTS
  Keys = {0, 1}
  Vals = {"a"}
  Clients = {"c1", "c2"}
  MaxOps = 3
  MaxTables = 3
  MaxSessions = 1
  Cfgs <- CfgsOne
  DropTombAlways = FALSE
  BufferedHandoff = FALSE
  MaxHist = 30
ACTION_CONSTRAINT Cover
VIEW CView
CHECK_DEADLOCK FALSE
