SPECIFICATION Spec
CONSTANTS
  Keys = {0, 1}
  NT = 4
  WithEmpty = FALSE
INVARIANTS EachKeyOnceAscending NewestWins NoForeignValue ScanIsGetOfLive CompactIsScan NestedOldestIsFlat Emit
CHECK_DEADLOCK FALSE
