-------------------------- MODULE GenSimpleDBConc --------------------------
(* Behaviour generation for the schedule replay (spec -> impl, C05): EVERY action of the concurrent SimpleDB.tla model gets a
   label, so that a behaviour is a complete schedule at lock / channel grain: which thread (client c1 / c2, flusher, compactor)
   takes which step in which order.  The harness executes the schedule on the real database by releasing its threads one step
   at a time through the scheduling gates (get.between, flush.take, flush.written, compact.select, compact.merged) and compares
   the reply of every Get with the value the model computed for exactly this interleaving (field r of the getmem label).     *)
EXTENDS MCSimpleDB, Json
CONSTANT MaxHist
VARIABLE hist
gvars == <<vars, hist>>
L(a, c, k, v, r) == hist' = Append(hist, [a |-> a, c |-> c, k |-> k, v |-> v, r |-> r])
GInit == Init /\ hist = <<[a |-> "open", c |-> "-", k |-> 0, v |-> ToString(cfg), r |-> ""]>>
GNext ==
  /\ Len(hist) < MaxHist
  /\ \/ \E c \in Clients, k \in Keys : \/ \E v \in Vals : Mutate(c, k, v) /\ L("put", c, k, v, "")
                                       \/ Mutate(c, k, TOMB) /\ L("del", c, k, "", "")
                                       \/ \E v \in Vals : PutRotate(c, k, v) /\ L("putrotate", c, k, v, "")
                                       \/ GetStart(c, k) /\ L("getstart", c, k, "", "")
     \/ \E c \in Clients : \/ Handoff(c) /\ L("handoff", c, 0, "", "")
                           \/ GetTables(c) /\ L("gettables", c, arg[c].k, "", "")
                           \/ GetMem(c) /\ L("getmem", c, arg[c].k, "", res'[c])
                           \/ GetRet(c) /\ L("getret", c, 0, "", "")
     \/ FlushWrite /\ L("flushwrite", "-", 0, "", "")
     \/ FlushInstall /\ L("flushinstall", "-", 0, "", "")
     \/ CompactSelect /\ L("cselect", "-", 0, "", "")
     \/ CompactMerge /\ L("cmerge", "-", 0, "", "")
     \/ CompactReflect /\ L("creflect", "-", 0, "", "")
GSpec == GInit /\ [][GNext]_gvars
\* a schedule is worth replaying when threads really overlap: some Get has another thread's step between its two reads,
\* or a flush / compaction step happens while a client is inside a call
Between(i, j) == {n \in (i + 1)..(j - 1) : hist[n].a \in {"flushinstall", "creflect", "put", "del", "putrotate", "handoff"}}
Overlaps == \E i, j \in 1..Len(hist) : i < j /\ hist[i].a = "gettables" /\ hist[j].a = "getmem" /\ hist[i].c = hist[j].c
                                       /\ (\A n \in (i + 1)..(j - 1) : ~(hist[n].a = "getmem" /\ hist[n].c = hist[i].c)) /\ Between(i, j) # {}
GenLeaf == Len(hist) = MaxHist => PrintT(<<"BEH", ToJson([ov |-> Overlaps, h |-> hist])>>)
=============================================================================
