SPECIFICATION TSpec
CONSTANTS
  Keys = {0, 1, 2, 3, 4, 5, 6, 7}
  Vals = {"v"}
  MaxOps = 0
  MaxGen = 0
  MaxWal = 0
  MaxCrash = 0
  DropTombAlways = FALSE
  SizeRotate = FALSE
  WalRemoveAnyOrder = FALSE
  RecFinishRenameFirst = FALSE
  Async = FALSE
  RotateDropsBuffer = FALSE
  RotateInflight = FALSE
INVARIANTS Report
CHECK_DEADLOCK FALSE
