----------------------------- MODULE MergeTrace -----------------------------
(* Judge of real stacked-reader probes, merges and compactions with and without injected faults (engine "merge"; C08, C11). *)
EXTENDS Merge, IOUtils
Trace == ndJsonDeserialize(IOEnv.TRACE)
VARIABLES ts, K, l, bad, nok, skip, cs
tvars == <<tabs, done, ts, K, l, bad, nok, skip, cs>>
TInit == tabs = <<>> /\ done = TRUE /\ ts = <<>> /\ K = {} /\ l = 1 /\ bad = <<>> /\ nok = 0 /\ skip = FALSE /\ cs = -1
Ev == Trace[l]
Pairs(s) == [i \in 1..Len(s) |-> <<s[i][1], s[i][2]>>]
OutEq(e, exp) == e.err = "" /\ Pairs(e.out) = exp
\* tables arrive as rows over ranks 0..n-1 (JSON arrays are 1-based sequences)
Tabs(e) == [i \in 1..Len(e.tabs) |-> [k \in 0..(e.nkeys - 1) |-> e.tabs[i][k + 1]]]
Expected(kind) == CASE kind = "compact-latest" -> CompactOf(ts, K, "latest")
                    [] kind = "compact-skiptomb" -> CompactOf(ts, K, "skiptomb")
                    [] kind = "superscan" -> ScanOf(ts, K)
                    [] OTHER -> PlainOf(ts, K)
Check ==
  CASE Ev.t = "tables" -> "ok"
    [] Ev.t = "contains" -> IF Ev.r # (IF SuperContains(ts, Ev.k) THEN "true" ELSE "false") THEN "super-contains" ELSE "ok"
    [] Ev.t = "get" -> IF Ev.r # SuperGet(ts, Ev.k) THEN "super-get" ELSE "ok"
    \* C09 through a stack: one member's data file was damaged and the members verify every read - the stacked Get fails or returns the newest
    \* value as it was written, never an older table's value and never other bytes
    [] Ev.t = "dmgget" -> IF (Len(Ev.r) >= 4 /\ SubSeq(Ev.r, 1, 4) = "err:") \/ Ev.r = SuperGet(ts, Ev.k) THEN "ok" ELSE "damage-under-stack-served-other-value"
    [] Ev.t = "scan" -> IF ~OutEq(Ev, ScanOf(ts, K)) THEN "super-scan" ELSE "ok"
    [] Ev.t = "scanfrom" -> IF ~OutEq(Ev, ScanFromOf(ts, K, Ev.k)) THEN "super-scan-starting-at" ELSE "ok"
    [] Ev.t = "scanrange" -> IF Ev.lo > Ev.hi THEN (IF Ev.err = "" THEN "super-scan-range-lower-above-upper-not-rejected" ELSE "ok")
                             ELSE IF ~OutEq(Ev, ScanRangeOf(ts, K, Ev.lo, Ev.hi)) THEN "super-scan-range" ELSE "ok"
    [] Ev.t = "merged" ->
         \* C11: a fault that was hit must be reported; success means the output equals the oracle
         IF Ev.hit /\ Ev.err = "" THEN "fault-absorbed"
         ELSE IF Ev.err # "" /\ ~Ev.hit THEN "spurious-error"
         ELSE IF Ev.err = "" /\ (Ev.readerr # "" \/ Pairs(Ev.out) # Expected(Ev.kind)) THEN "merge-output"
         ELSE "ok"
    [] OTHER -> "unknown-event"
Step ==
  /\ l <= Len(Trace) /\ l' = l + 1 /\ UNCHANGED <<tabs, done>>
  /\ IF Ev.t = "reset" THEN ts' = <<>> /\ K' = {} /\ skip' = FALSE /\ cs' = Ev.case /\ UNCHANGED <<bad, nok>>
     ELSE IF skip THEN UNCHANGED <<ts, K, bad, nok, skip, cs>>
     ELSE LET c == Check IN
          /\ UNCHANGED <<cs, skip>>
          /\ IF Ev.t = "tables" THEN ts' = Tabs(Ev) /\ K' = 0..(Ev.nkeys - 1) ELSE UNCHANGED <<ts, K>>
          /\ IF c = "ok" THEN nok' = nok + 1 /\ UNCHANGED bad
             ELSE bad' = Append(bad, [case |-> cs, line |-> l, clause |-> c, ev |-> ToString(Ev)]) /\ UNCHANGED nok
TSpec == TInit /\ [][Step]_tvars
Report == (l = Len(Trace) + 1) => PrintT(<<"VERDICT", nok, ToJson(bad)>>)
=============================================================================
