---------------------------- MODULE ResourcesInd ----------------------------
(* Unbounded safety of Resources.tla by an inductive invariant, discharged by Apalache (symbolic, no bound on MaxTables / MaxCycles / K):
     Init => IndInv                 (--init=Init    --inv=IndInv  --length=0)
     IndInv /\ NextU => IndInv'     (--init=IndInit --inv=IndInv  --length=1)
     IndInv => the four invariants  (--init=IndInit --inv=Safety  --length=0)
   NextU quantifies n over all integers instead of 2..MaxTables (Apalache cannot expand a range with a symbolic bound); CompStart / Compact
   themselves demand n \in 2..tables, so NextU = Next wherever tables <= MaxTables, which IndInv states.                                     *)
EXTENDS Resources
ConstInit == /\ MaxTables \in Nat /\ MaxCycles \in Nat /\ K \in Nat /\ K >= 1 /\ ReleaseBeforeJoin = FALSE
ConstInitNeg == /\ MaxTables \in Nat /\ MaxCycles \in Nat /\ K \in Nat /\ K >= 1 /\ ReleaseBeforeJoin = TRUE   \* selftest: the defective Close order
TypeOK == /\ phase \in {"closed", "open", "locking", "closing", "joined"}
          /\ tables \in Nat /\ tableH \in Nat /\ walH \in {0, 1} /\ flusher \in BOOLEAN
          /\ compactor \in {"none", "idle", "merging"} /\ csel \in Nat /\ released \in BOOLEAN /\ cycles \in Nat
IndInv == /\ TypeOK
          /\ tables <= MaxTables
          /\ phase = "closed" => tableH = 0 /\ walH = 0 /\ compactor = "none"
          /\ phase # "closed" => ~released /\ tableH = tables /\ walH = 1
          /\ flusher <=> phase \in {"open", "locking"}
          /\ phase = "joined" => compactor = "none"
          /\ IF compactor = "merging" THEN csel >= 2 /\ csel <= tables ELSE csel = 0
IndInit == IndInv
NextU == \/ \E b \in BOOLEAN : Open(b)
         \/ Flush \/ CompReflect \/ CloseLock \/ CloseFlusherJoined \/ CloseJoin \/ CloseRelease
         \/ \E n \in Int : CompStart(n) \/ Compact(n)
\* CloseCanProceed without ENABLED (Apalache has none): the enabling conditions written out
CanProceed == phase = "closing" => (compactor \in {"none", "idle"} \/ compactor = "merging")
\* must be VIOLATED from IndInit: shows that IndInv is satisfiable in a state where Close waits for a running compaction
Vacuous == ~(phase = "closing" /\ compactor = "merging" /\ tables >= 3 /\ csel = 2)
Safety == HandlesBounded /\ ClosedReleasesAll /\ NoGrowthWithCycles /\ CanProceed
=============================================================================
