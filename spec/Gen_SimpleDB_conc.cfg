SPECIFICATION GSpec
CONSTANTS
  Keys = {0, 1}
  Vals = {"a", "b"}
  Clients = {"c1", "c2"}
  MaxOps = 5
  MaxTables = 4
  MaxSessions = 1
  Cfgs <- CfgsSmall
  DropTombAlways = FALSE
  BufferedHandoff = FALSE
  MaxHist = 30
INVARIANTS GenLeaf GetLinearizable
CHECK_DEADLOCK FALSE
