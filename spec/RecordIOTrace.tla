--------------------------- MODULE RecordIOTrace ---------------------------
(* Judge of real RecordIO executions (engine "rio"): writer program replies, every reader / access path (C04) and the outcomes of
   reading damaged copies (C12).  Verdict-list mode.                                                                            *)
EXTENDS RecordIO, IOUtils
Trace == ndJsonDeserialize(IOEnv.TRACE)
VARIABLES l, bad, nok, skip, cs
tvars == <<recs, size, nseek, closed, hist, l, bad, nok, skip, cs>>
TInit == recs = <<>> /\ size = 8 /\ nseek = 0 /\ closed = FALSE /\ hist = <<>> /\ l = 1 /\ bad = <<>> /\ nok = 0 /\ skip = FALSE /\ cs = -1
Ev == Trace[l]
IsErr(s) == Len(s) >= 3 /\ SubSeq(s, 1, 3) = "err"
IsOpenErr(s) == Len(s) >= 7 /\ SubSeq(s, 1, 7) = "openerr"
Check ==
  CASE Ev.t = "w" ->
         IF Ev.err # "" THEN "writer-error"
         ELSE IF Ev.op \in {"write", "writesync"} THEN
              (IF Ev.off # size THEN "write-offset-is-not-previous-size" ELSE IF Ev.size <= Ev.off THEN "size-not-advanced" ELSE "ok")
         ELSE IF Ev.op = "seek" THEN (IF Ev.target # SeekTarget(recs, size, Ev.j) \/ Ev.size # Ev.target THEN "seek-size" ELSE "ok")
         \* the direct-I/O writer pads the file with zeros to a full block by design
         ELSE IF Ev.op = "close" THEN (IF (~Ev.dio /\ Ev.size # size) \/ (Ev.dio /\ Ev.size < size) THEN "file-size-after-close" ELSE "ok")
         ELSE "ok"
    [] Ev.t = "seq" ->
         \* exactly the surviving records in order, then end-of-file
         IF Ev.out # SeqExpected(recs, Ev.prog) THEN "sequential-read"
         ELSE IF Ev.end # "EOF" THEN "sequential-end-not-eof" ELSE "ok"
    [] Ev.t = "mmapopen" -> "mmap-open-failed"
    [] Ev.t = "at" -> IF Ev.r # AtOffset(recs, Ev.off) THEN "read-at-offset" ELSE "ok"
    \* the record the file was cut in (concurrent readers, C18): an error or end-of-file, never data
    [] Ev.t = "atcut" -> IF Ev.r = "EOF" \/ IsErr(Ev.r) THEN "ok" ELSE "cut-record-returned"
    [] Ev.t = "seeknext" ->
         LET e == NextFrom(recs, Ev.from) IN
         \* no record at or after `from`: end-of-file or an error for an offset outside the file - never data
         IF e.tok = "EOF" THEN (IF Ev.r = "EOF" \/ IsErr(Ev.r) THEN "ok" ELSE "seek-next-record")
         ELSE IF Ev.r # e.tok THEN "seek-next-record" ELSE IF Ev.roff # e.off THEN "seek-next-offset" ELSE "ok"
    [] Ev.t = "trunc" ->
         \* C12: exactly the completely contained records, in order, then EOF or an error - for both readers
         LET exp == CompleteToks(recs, size, Ev.n) IN
         IF Ev.n < 8 THEN (IF IsOpenErr(Ev.end) /\ Ev.out = <<>> THEN "ok" ELSE "cut-file-header-accepted")
         ELSE IF Ev.out # exp THEN "truncated-file-records"
         ELSE IF \E i \in 1..Len(Ev.at) : Ev.at[i] # "err" /\ Ev.at[i] # recs[i].tok THEN "truncated-file-random-access-wrong-record"
         ELSE IF \E i \in 1..Len(Ev.at) : EndOf(recs, size, i) <= Ev.n /\ Ev.at[i] # recs[i].tok THEN "truncated-file-random-access-lost-complete-record"
         ELSE "ok"
    [] Ev.t = "hdr" ->
         \* C12: an altered header byte of record i makes reading that record fail: the records before it are returned, then an error
         LET exp == [k \in 1..(Ev.i - 1) |-> recs[k].tok] IN
         IF ~IsPrefixOf(Ev.out, Toks(recs)) THEN "header-damage-foreign-record"
         ELSE IF Len(Ev.out) >= Ev.i THEN "header-damage-record-returned"
         ELSE IF Ev.out # exp THEN "header-damage-earlier-record-lost"
         \* a damaged header of the LAST record that runs into the end of the file is indistinguishable from a cut file (EOF allowed);
         \* anywhere else a clean EOF would silently drop the genuine records behind it
         ELSE IF ~IsErr(Ev.end) /\ Ev.i < Len(recs) THEN "header-damage-silently-ends-file"
         ELSE IF Ev.at[Ev.i] # "err" THEN "header-damage-random-access-returned-data"
         ELSE "ok"
    [] Ev.t = "fhdr" -> IF ~IsOpenErr(Ev.end) THEN "bad-file-header-accepted-sequential"
                        ELSE IF Ev.mmapopen = "" THEN "bad-file-header-accepted-mmap" ELSE "ok"
    [] OTHER -> "unknown-event"
Step ==
  /\ l <= Len(Trace) /\ l' = l + 1 /\ UNCHANGED <<nseek, closed, hist>>
  /\ IF Ev.t = "reset" THEN recs' = <<>> /\ size' = 8 /\ skip' = FALSE /\ cs' = Ev.case /\ UNCHANGED <<bad, nok>>
     ELSE IF skip THEN UNCHANGED <<recs, size, bad, nok, skip, cs>>
     ELSE LET c == Check IN
          /\ UNCHANGED cs
          /\ IF Ev.t = "w" /\ Ev.err = "" /\ Ev.op \in {"write", "writesync"} THEN recs' = Append(recs, [tok |-> Ev.rec, off |-> Ev.off]) /\ size' = Ev.size
             ELSE IF Ev.t = "w" /\ Ev.err = "" /\ Ev.op = "seek" THEN recs' = AfterSeek(recs, Ev.j) /\ size' = SeekTarget(recs, size, Ev.j)
             ELSE UNCHANGED <<recs, size>>
          /\ IF c = "ok" THEN nok' = nok + 1 /\ UNCHANGED <<bad, skip>>
             ELSE /\ bad' = Append(bad, [case |-> cs, line |-> l, clause |-> c, ev |-> ToString(Ev)]) /\ UNCHANGED nok
                  /\ skip' = (Ev.t = "w")
TSpec == TInit /\ [][Step]_tvars
TOffsetsAscending == \A i \in 1..(Len(recs) - 1) : recs[i].off < recs[i + 1].off
Report == (l = Len(Trace) + 1) => PrintT(<<"VERDICT", nok, ToJson(bad)>>)
=============================================================================
