SPECIFICATION Spec
CONSTANTS
  Keys = {0, 1}
  Vals = {"a", "b"}
  MaxCalls = 5
  LogBeforeValidate = FALSE
INVARIANTS RecoveryAgrees SameVerdict 
PROPERTIES RejectedIsNoOp
VIEW View
CHECK_DEADLOCK FALSE
