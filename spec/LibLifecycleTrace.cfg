SPECIFICATION TSpec
CONSTANTS
  Kind = "fw"
  MaxCalls = 0
INVARIANTS Report
CHECK_DEADLOCK FALSE
