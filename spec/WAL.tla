-------------------------------- MODULE WAL --------------------------------
(* C07: wal/appender.go + wal/replayer.go over recordio's buffered writer (file_writer.go, bufio_vendor.go).
   Files are numbered; Append buffers a record, AppendSync additionally flushes the buffer and fsyncs, Rotate (forced, or size-triggered
   before an append) closes (= flushes) the current file and creates the next one; a kill loses exactly the unflushed buffer, and a
   buffer flush may be cut anywhere inside the last record (the cut record is not replayed).  Replay reads the files in name order.  *)
EXTENDS Integers, Sequences, FiniteSets, TLC, SequencesExt
CONSTANTS MaxRecs, MaxFiles, MaxPerFile
VARIABLES files,      \* sequence of files, each a sequence of record ids that reached the file (written)
          buf,        \* records appended but still in the in-process buffer of the current file
          appended,   \* all records appended so far (ids 1..n)
          synced,     \* number of records covered by a returned AppendSync
          crashed
vars == <<files, buf, appended, synced, crashed>>
Init == files = << <<>> >> /\ buf = <<>> /\ appended = <<>> /\ synced = 0 /\ crashed = FALSE
Flat(fs) == LET RECURSIVE cat(_)
                cat(i) == IF i > Len(fs) THEN <<>> ELSE fs[i] \o cat(i + 1) IN cat(1)
Replay == Flat(files)
CurLen == Len(files[Len(files)]) + Len(buf)
NewId == Len(appended) + 1
\* size-triggered rotation happens inside Append/AppendSync before the record is written
MaybeRotate(f, b) == IF CurLen >= MaxPerFile /\ Len(f) < MaxFiles
                     THEN [f |-> Append([f EXCEPT ![Len(f)] = @ \o b], <<>>), b |-> <<>>] ELSE [f |-> f, b |-> b]
DoAppend == /\ ~crashed /\ Len(appended) < MaxRecs
            /\ LET r == MaybeRotate(files, buf) IN files' = r.f /\ buf' = Append(r.b, NewId)
            /\ appended' = Append(appended, NewId) /\ UNCHANGED <<synced, crashed>>
DoAppendSync == /\ ~crashed /\ Len(appended) < MaxRecs
                /\ LET r == MaybeRotate(files, buf) IN files' = [r.f EXCEPT ![Len(r.f)] = @ \o Append(r.b, NewId)] /\ buf' = <<>>
                /\ appended' = Append(appended, NewId) /\ synced' = NewId /\ UNCHANGED crashed
\* the buffer fills up and is flushed (any prefix of it reaches the file)
BufFlush == /\ ~crashed /\ buf # <<>>
            /\ \E n \in 1..Len(buf) : files' = [files EXCEPT ![Len(files)] = @ \o SubSeq(buf, 1, n)] /\ buf' = SubSeq(buf, n + 1, Len(buf))
            /\ UNCHANGED <<appended, synced, crashed>>
DoRotate == /\ ~crashed /\ Len(files) < MaxFiles
            /\ files' = Append([files EXCEPT ![Len(files)] = @ \o buf], <<>>) /\ buf' = <<>> /\ UNCHANGED <<appended, synced, crashed>>
Crash == ~crashed /\ crashed' = TRUE /\ buf' = <<>> /\ UNCHANGED <<files, appended, synced>>
Next == DoAppend \/ DoAppendSync \/ BufFlush \/ DoRotate \/ Crash
Spec == Init /\ [][Next]_vars
\* C07
ReplayIsPrefix == IsPrefix(Replay, appended)
SyncedSurvive == Len(Replay) >= synced
CleanReplayIsAll == ~crashed => Replay \o buf = appended
=============================================================================
