SPECIFICATION Spec
CONSTANTS
  MaxCalls = 5
INVARIANTS GenLeaf
PROPERTIES RejectedIsNoOp ClosedStaysClosed
CHECK_DEADLOCK FALSE
