SPECIFICATION TSpec
CONSTANTS
  Keys = {0}
  MaxLen = 0
INVARIANTS Report
CHECK_DEADLOCK FALSE
