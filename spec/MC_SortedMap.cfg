SPECIFICATION Spec
CONSTANTS
  Keys = {0, 1, 2, 3, 4, 5, 6}
  MaxLen = 7
INVARIANTS OrderIndependent IteratorsConsistent Emit
CHECK_DEADLOCK FALSE
