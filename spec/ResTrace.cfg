SPECIFICATION TSpec
CONSTANTS
  MaxTables = 1000000
  MaxCycles = 1000000000
  K = 1
  ReleaseBeforeJoin = FALSE
INVARIANTS Report
CHECK_DEADLOCK FALSE
