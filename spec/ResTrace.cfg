SPECIFICATION TSpec
CONSTANTS
  MaxTables = 1
  MaxCycles = 1
  K = 1
INVARIANTS Report
CHECK_DEADLOCK FALSE
