SPECIFICATION Spec
CONSTANTS
  Keys = {0,1,2,3,4,5,6,7}
INVARIANTS Report
CHECK_DEADLOCK FALSE
