----------------------------- MODULE CrashJudge -----------------------------
(* Judge of real crash points (C02, C10, C13, part of C17).  One line per event of a recorded session, in the total order of the
   strace log:  inv / app (the mutation was logged + applied, WAL order) / ret (acknowledged) / rot (WAL rotated: everything
   before is durable even with the asynchronous WAL) / cp (a crash point: the REAL Open + Get of every key on the directory
   image after that syscall).  KVStore.tla's Crash step defines what a kill may leave:
     sync : every acknowledged operation; each operation in flight present or absent                         (C02)
     async: the reference map after some prefix of the applied sequence that contains the last rotation      (C13)
   A crash point of kind "nested" carries the map of the uninterrupted recovery of the same image instead    (C10).      *)
EXTENDS Integers, Sequences, FiniteSets, TLC, Json, IOUtils
CONSTANTS Keys
Trace == ndJsonDeserialize(IOEnv.TRACE)
NONE == "none"
VARIABLES seq,        \* applied mutations in WAL order: [k, v, g]
          ackPos,     \* per key: position in seq of the latest acknowledged mutation (0 = none)
          pend,       \* g -> [k, v, pos] invoked, not yet acknowledged (pos = 0: not yet applied)
          rotn,       \* Len(seq) at the last WAL rotation
          mode, l, bad, nok, cs
vars == <<seq, ackPos, pend, rotn, mode, l, bad, nok, cs>>
Init == seq = <<>> /\ ackPos = [k \in Keys |-> 0] /\ pend = <<>> /\ rotn = 0 /\ mode = "sync" /\ l = 1 /\ bad = <<>> /\ nok = 0 /\ cs = -1
Ev == Trace[l]
ValAt(k, p) == IF p = 0 THEN NONE ELSE seq[p].v
\* C02: per key the acknowledged value, or the effect of an operation still in flight on that key (applied later or not yet applied)
SyncCand(k) == {ValAt(k, ackPos[k])} \cup {pend[g].v : g \in {h \in DOMAIN pend : pend[h].k = k /\ (pend[h].pos = 0 \/ pend[h].pos > ackPos[k])}}
SyncOk(m) == \A k \in Keys : m[k + 1] \in SyncCand(k)
\* C13: some prefix n >= rotn of the applied sequence (optionally followed by the one operation that was logged but not yet applied)
RECURSIVE MapAfter(_, _)
MapAfter(n, k) == IF n = 0 THEN NONE ELSE IF seq[n].k = k THEN seq[n].v ELSE MapAfter(n - 1, k)
Unapplied == {g \in DOMAIN pend : pend[g].pos = 0}
AsyncOk(m) == \/ \E n \in rotn..Len(seq) : \A k \in Keys : m[k + 1] = MapAfter(n, k)
              \/ \E g \in Unapplied : \A k \in Keys : m[k + 1] = IF pend[g].k = k THEN pend[g].v ELSE MapAfter(Len(seq), k)
Verdict ==
  IF ~Ev.ok THEN "open-failed"
  \* the session that recovered the image went on: one more Put, a regular flush, all keys read, clean restart, all keys read - and lost
  \* or changed something the recovery itself had shown
  ELSE IF "cont" \in DOMAIN Ev /\ Ev.cont # "" THEN "work-after-recovery-changes-recovered-data"
  ELSE IF Ev.kind = "nested" THEN (IF Ev.m = Ev.ref THEN "ok" ELSE "differs-from-uninterrupted-recovery")
  ELSE IF mode = "sync" THEN (IF SyncOk(Ev.m) THEN "ok" ELSE "acknowledged-write-lost-or-stale")
  ELSE (IF AsyncOk(Ev.m) THEN "ok" ELSE "not-a-prefix-containing-last-rotation")
Step ==
  /\ l <= Len(Trace) /\ l' = l + 1
  /\ CASE Ev.t = "reset" -> /\ seq' = <<>> /\ ackPos' = [k \in Keys |-> 0] /\ pend' = <<>> /\ rotn' = 0 /\ mode' = Ev.mode /\ cs' = Ev.case
                            /\ UNCHANGED <<bad, nok>>
       [] Ev.t = "inv" -> /\ pend' = (Ev.g :> [k |-> Ev.k, v |-> Ev.v, pos |-> 0]) @@ pend
                          /\ UNCHANGED <<seq, ackPos, rotn, mode, bad, nok, cs>>
       [] Ev.t = "app" -> /\ seq' = Append(seq, [k |-> Ev.k, v |-> Ev.v])
                          /\ pend' = LET gs == {g \in DOMAIN pend : pend[g].k = Ev.k /\ pend[g].v = Ev.v /\ pend[g].pos = 0} IN
                                     IF gs = {} THEN pend ELSE LET g == CHOOSE x \in gs : TRUE IN [pend EXCEPT ![g].pos = Len(seq) + 1]
                          /\ UNCHANGED <<ackPos, rotn, mode, bad, nok, cs>>
       [] Ev.t = "ret" -> /\ IF Ev.g \in DOMAIN pend
                             THEN LET me == pend[Ev.g]
                                      \* two clients with the same mutation in flight (two deletes of one key): the "app" line cannot tell
                                      \* them apart and may have been booked on the other one - the one that returns first owns the position
                                      tw == {h \in DOMAIN pend \ {Ev.g} : pend[h].k = me.k /\ pend[h].v = me.v /\ pend[h].pos # 0}
                                      swap == me.pos = 0 /\ tw # {}
                                      h == CHOOSE x \in tw : TRUE
                                      pos == IF swap THEN pend[h].pos ELSE me.pos
                                  IN /\ ackPos' = IF pos > ackPos[me.k] THEN [ackPos EXCEPT ![me.k] = pos] ELSE ackPos
                                     /\ pend' = [g \in DOMAIN pend \ {Ev.g} |-> IF swap /\ g = h THEN [pend[g] EXCEPT !.pos = 0] ELSE pend[g]]
                             ELSE UNCHANGED <<ackPos, pend>>
                          /\ UNCHANGED <<seq, rotn, mode, bad, nok, cs>>
       [] Ev.t = "rot" -> rotn' = Len(seq) /\ UNCHANGED <<seq, ackPos, pend, mode, bad, nok, cs>>
       [] Ev.t = "cp" -> /\ LET v == Verdict IN
                            IF v = "ok" THEN nok' = nok + 1 /\ UNCHANGED bad
                            ELSE bad' = Append(bad, [case |-> cs, idx |-> Ev.idx, clause |-> v, desc |-> Ev.desc, err |-> Ev.err, m |-> Ev.m]) /\ UNCHANGED nok
                         /\ UNCHANGED <<seq, ackPos, pend, rotn, mode, cs>>
       [] OTHER -> UNCHANGED <<seq, ackPos, pend, rotn, mode, bad, nok, cs>>
Spec == Init /\ [][Step]_vars
Report == (l = Len(Trace) + 1) => PrintT(<<"VERDICT", nok, ToJson(bad)>>)
=============================================================================
