SPECIFICATION TSpec
CONSTANTS
  Classes = {"A"}
  MaxSteps = 0
  MaxSeeks = 0
INVARIANTS Report
CHECK_DEADLOCK FALSE
