---------------------------- MODULE SSTableTrace ----------------------------
(* Judge of real table writes and reads (engine "sst"): every reply is compared with SSTable.tla's operators. Verdict-list mode. *)
EXTENDS SSTable, IOUtils
Trace == ndJsonDeserialize(IOEnv.TRACE)
VARIABLES l, bad, nok, skip, cs, opened, orig
tvars == <<acc, hist, l, bad, nok, skip, cs, opened, orig>>
TInit == acc = <<>> /\ hist = <<>> /\ l = 1 /\ bad = <<>> /\ nok = 0 /\ skip = FALSE /\ cs = -1 /\ opened = FALSE /\ orig = <<>>
Ev == Trace[l]
\* iterator outputs arrive as sequences of [rank, token] pairs or as an "err:..." string
Pairs(s) == [i \in 1..Len(s) |-> <<s[i][1], s[i][2]>>]
\* an iterator result: drained pairs + error text ("" = clean end)
OutEq(e, exp) == e.err = "" /\ Pairs(e.out) = exp
OrigVal(k) == LET S == {i \in 1..Len(orig) : orig[i][1] = k} IN IF S = {} THEN "ABSENT" ELSE orig[CHOOSE i \in S : TRUE][2]
\* keys written with an empty / nil value have a zero checksum by format design: they are only protected against damage that a record
\* header detects - byte alterations and truncation of UNCOMPRESSED tables (an empty value has no payload bytes there). Exchanged whole
\* records and the (unprotected) compressed payload of an empty value are outside the property's claim.
DamageOkFor(kind, o, outcome) == IF o \in {"EMPTY", "NIL"} /\ (kind = "swap" \/ Ev.dcomp # 0) THEN TRUE ELSE DamageOk(o, outcome)
ScanGenuine(kind, out) == /\ \A i \in 1..Len(out) : OrigVal(out[i][1]) # "ABSENT" /\ DamageOkFor(kind, OrigVal(out[i][1]), out[i][2])
                    /\ \A i \in 1..(Len(out) - 1) : out[i][1] < out[i + 1][1]
Check ==
  CASE Ev.t = "write" -> IF Ev.r # WriteReply(acc, Ev.k, IF Ev.hit THEN Ev.fault ELSE "") THEN "write-reply" ELSE "ok"
    [] Ev.t = "reader" ->
         IF Ev.closeErr # "" THEN "writer-close-failed"
         ELSE IF Ev.err # "" THEN "reader-open-failed"
         ELSE IF Ev.v0 THEN "ok"     \* a table in the legacy layout has no metadata file: nothing to be truthful about
         ELSE IF Ev.meta.n # Meta(acc).n THEN "metadata-count"
         ELSE IF Ev.meta.nulls # Meta(acc).nulls THEN "metadata-null-count"
         ELSE IF Ev.meta.min # Meta(acc).min \/ Ev.meta.max # Meta(acc).max THEN "metadata-min-max"
         ELSE IF ~Ev.meta.sizesOk THEN "metadata-byte-sizes" ELSE "ok"
    [] Ev.t = "contains" -> IF Ev.r # (IF HasKey(acc, Ev.k) THEN "true" ELSE "false") THEN "contains" ELSE "ok"
    [] Ev.t = "get" -> IF Ev.r # Lookup(acc, Ev.k) THEN "get" ELSE "ok"
    [] Ev.t = "scan" -> IF ~OutEq(Ev, Scan(acc)) THEN "scan" ELSE "ok"
    [] Ev.t = "scanfrom" -> IF ~OutEq(Ev, ScanFrom(acc, Ev.k)) THEN "scan-starting-at" ELSE "ok"
    [] Ev.t = "scanrange" -> IF Ev.lo > Ev.hi THEN (IF Ev.err = "" THEN "scan-range-lower-above-upper-not-rejected" ELSE "ok")
                            ELSE IF ~OutEq(Ev, ScanRange(acc, Ev.lo, Ev.hi)) THEN "scan-range" ELSE "ok"
    [] Ev.t = "dmgtable" -> "ok"
    [] Ev.t = "dmg" ->
         \* C09 NeverDifferentValue: per key the open failed, the read failed, or the ORIGINAL value came back; scans only yield genuine
         \* pairs in ascending order (they may stop early, with or without an error, but never invent or alter data)
         IF Ev.open # "ok" /\ Ev.open # "err" THEN "damage-panic"
         ELSE IF Ev.open = "err" THEN "ok"
         \* gets[i] answers the Get of the written pair number gk[i]
         ELSE IF \E i \in 1..Len(Ev.gets) : ~DamageOkFor(Ev.kind, orig[Ev.gk[i]][2], IF Ev.gets[i] = "err" THEN "readFailed" ELSE Ev.gets[i]) THEN "damage-get-different-value"
         ELSE IF ~ScanGenuine(Ev.kind, Ev.scan) THEN "damage-scan-different-data"
         ELSE IF ~ScanGenuine(Ev.kind, Ev.range) THEN "damage-range-scan-different-data"
         ELSE "ok"
    [] OTHER -> "unknown-event"
Step ==
  /\ l <= Len(Trace) /\ l' = l + 1 /\ UNCHANGED hist
  /\ orig' = IF Ev.t = "dmgtable" THEN Ev.orig ELSE IF Ev.t = "reset" THEN <<>> ELSE orig
  /\ IF Ev.t = "reset" THEN acc' = <<>> /\ skip' = FALSE /\ cs' = Ev.case /\ opened' = FALSE /\ UNCHANGED <<bad, nok>>
     ELSE IF skip THEN UNCHANGED <<acc, bad, nok, skip, cs, opened>>
     ELSE LET c == Check IN
          /\ UNCHANGED <<cs, opened>>
          /\ acc' = IF Ev.t = "write" THEN WriteNext(acc, Ev.k, Ev.v, IF Ev.hit THEN Ev.fault ELSE "") ELSE acc
          /\ IF c = "ok" THEN nok' = nok + 1 /\ UNCHANGED <<bad, skip>>
             ELSE /\ bad' = Append(bad, [case |-> cs, line |-> l, clause |-> c, ev |-> ToString(Ev)]) /\ UNCHANGED nok
                  \* a failing reader configuration ends the case; a wrong probe reply does not (every probe is judged)
                  /\ skip' = (Ev.t \in {"write", "reader"})
TSpec == TInit /\ [][Step]_tvars
TAscending == Ascending(acc)
Report == (l = Len(Trace) + 1) => PrintT(<<"VERDICT", nok, ToJson(bad)>>)
=============================================================================
