------------------------------ MODULE RefineKV ------------------------------
(* SimpleDB.tla (the implementation-shaped model: memstores, tables, lock, flusher, compactor) implements KVStore.tla (the atomic
   map every property talks about) under the refinement mapping below - checked by TLC as the temporal property KV!AtomicSpec over all
   interleavings of MC_SimpleDB_conc.

     map  <- model                      (the reference map is updated exactly where a mutation linearizes: inside the write lock)
     pc   <- idle / invoked / linearized derived from the client's program counter:
               getT, getM  -> invoked      (the Get holds the read lock, nothing decided yet)
               got         -> linearized   (GetMem is the linearization point: it must return map[k] - GetLinearizable)
               handoff     -> linearized   (PutRotate changed the map, the call returns when the flusher has taken the store)
     A plain Put / Delete (Mutate) is invoke + linearize + return in ONE step of the implementation model, so the abstract side is
     KVStore with an additional atomic Call step (the composition of its three steps; no other client can observe the difference).  *)
EXTENDS MCSimpleDB
KVpc == [c \in Clients |-> CASE pc[c] \in {"getT", "getM"} -> "invoked"
                             [] pc[c] \in {"got", "handoff"} -> "linearized"
                             [] OTHER -> "idle"]
KVres == [c \in Clients |-> IF pc[c] = "got" THEN res[c] ELSE NONE]
\* ---- the abstract object (KVStore.tla restated over the mapped variables, plus the atomic Call) ----
AInvokeGet(c) == KVpc[c] = "idle" /\ KVpc'[c] = "invoked" /\ model' = model /\ \A d \in Clients \ {c} : KVpc'[d] = KVpc[d]
ALinGet(c) == KVpc[c] = "invoked" /\ KVpc'[c] = "linearized" /\ model' = model /\ KVres'[c] = model[arg[c].k]
              /\ \A d \in Clients \ {c} : KVpc'[d] = KVpc[d]
AReturn(c) == KVpc[c] = "linearized" /\ KVpc'[c] = "idle" /\ model' = model /\ \A d \in Clients \ {c} : KVpc'[d] = KVpc[d]
\* a mutation: the map changes in exactly one key; either the call is complete in the same step (Call) or it stays linearized (PutRotate)
AMutate(c) == /\ KVpc[c] = "idle" /\ KVpc'[c] \in {"idle", "linearized"}
              /\ \E k \in Keys : \E v \in Vals \cup {NONE} : model' = [model EXCEPT ![k] = v]
              /\ \A d \in Clients \ {c} : KVpc'[d] = KVpc[d]
AStutter == model' = model /\ KVpc' = KVpc
ANext == AStutter \/ \E c \in Clients : AInvokeGet(c) \/ ALinGet(c) \/ AReturn(c) \/ AMutate(c)
\* every step of the implementation model is a step of the abstract object (or leaves it unchanged: flushes, compactions, sessions)
Refines == [][ANext]_vars
\* and a Get that has linearized carries the value of the abstract map at its linearization point until it returns
LinearizedGetHoldsMapValue == \A c \in Clients : pc[c] = "got" => res[c] = exp[c]
=============================================================================
