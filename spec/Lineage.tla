------------------------------ MODULE Lineage ------------------------------
(* C06: exhaustive enumeration of table lineages x compaction settings.  For every lineage of 2..3 tables over two keys
   (each table: per key absent / value / tombstone, size class small / big) and every option set, one compaction cycle of
   SimpleDB.tla's design (selection rule, floodFill, merge, splice) is applied and must not change any read.
   Lineages on which a compaction happens are printed for replay against the real code.                                 *)
EXTENDS SimpleDBOps, Json
CONSTANTS NT, DropAlways
Contents == {d \in [Keys -> {NONE, "val", TOMB}] : \E k \in Keys : d[k] # NONE}
VARIABLES tabs, big, cfg, done
vars == <<tabs, big, cfg, done>>
CfgsL == [thr : {0, 1, 2}, maxSize : {0, 5, 100}, ratio : {0, 500, 1000}]
Tab(i) == LET d == [k \in Keys |-> IF tabs[i][k] = "val" THEN "v" \o ToString(i) ELSE tabs[i][k]]
          IN MkTable(i, d, IF big[i] THEN 10 ELSE 1)
Tables == [i \in 1..NT |-> Tab(i)]
Init == tabs \in [1..NT -> Contents] /\ big \in [1..NT -> BOOLEAN] /\ cfg \in CfgsL /\ done = FALSE
Run == RunGens(Tables, cfg)
After == IF WillCompact(Tables, cfg)
         THEN Splice(Tables, Run, MkMerged(Run[1], MergedData(Tables, Run, DropAlways), 1))
         ELSE Tables
Next == ~done /\ done' = TRUE /\ UNCHANGED <<tabs, big, cfg>>
Spec == Init /\ [][Next]_vars
CompactPreservesReads == Vis(Stack(After)) = Vis(Stack(Tables))
GapFree == Run = <<>> \/ IsRun(Tables, Run)
Interesting == WillCompact(Tables, cfg)
Emit == (~done /\ Interesting) => PrintT(<<"BEH", ToJson([tabs |-> tabs, big |-> big, cfg |-> cfg, run |-> Run,
                                                        oldestExcluded |-> (Run[1] # 1)])>>)
=============================================================================
