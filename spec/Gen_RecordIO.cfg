SPECIFICATION Spec
CONSTANTS
  Classes = {"NIL", "EMPTY", "A", "B"}
  MaxSteps = 4
  MaxSeeks = 2
INVARIANTS GenLeaf
CHECK_DEADLOCK FALSE
