SPECIFICATION TSpec
CONSTANTS
  Classes = {"A"}
  MaxSteps = 0
  MaxSeeks = 0
INVARIANTS TOffsetsAscending Report
CHECK_DEADLOCK FALSE
