SPECIFICATION Spec
CONSTANTS
  Keys = {"a", "b"}
  Vals = {"v1"}
  MaxOps = 3
  MaxGen = 3
  MaxWal = 3
  MaxCrash = 1
  DropTombAlways = FALSE
  SizeRotate = FALSE
  WalRemoveAnyOrder = FALSE
  RecFinishRenameFirst = FALSE
  Async = FALSE
  RotateDropsBuffer = FALSE
  RotateInflight = FALSE
INVARIANTS CrashSafe ReadsLikeMap
PROPERTIES StepProperty
CHECK_DEADLOCK FALSE
