SPECIFICATION Spec
CONSTANTS
  Kind = "fw"
  MaxCalls = 5
INVARIANTS GenLeaf
PROPERTIES RefusedIsNoOp ClosedStaysClosed
CHECK_DEADLOCK FALSE
