SPECIFICATION TSpec
CONSTANTS
  Keys = {0,1,2,3,4,5,6,7,8,9,10,11,12,13,14,15}
INVARIANTS TReadsLikeMap TNoLimbo TGensAscending Report
CHECK_DEADLOCK FALSE
