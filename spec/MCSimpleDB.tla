---------------------------- MODULE MCSimpleDB ----------------------------
EXTENDS SimpleDB
\* option sets for the bounded model: thr x maxSize (in records, the model's size unit) x ratio (per-mille)
CfgsAll   == [thr : {0, 1, 2}, maxSize : {0, 2, 100}, ratio : {0, 500, 1000}]
CfgsSmall == {[thr |-> 0, maxSize |-> 100, ratio |-> 1000], [thr |-> 1, maxSize |-> 2, ratio |-> 500], [thr |-> 1, maxSize |-> 0, ratio |-> 0]}
CfgsOne   == {[thr |-> 1, maxSize |-> 2, ratio |-> 500]}
=============================================================================
