SPECIFICATION Spec
CONSTANTS
  Keys = {0, 1}
  Vals = {"a", "b"}
  MaxCalls = 4
  LogBeforeValidate = TRUE
INVARIANTS RecoveryAgrees SameVerdict 
PROPERTIES RejectedIsNoOp
VIEW View
CHECK_DEADLOCK FALSE
