--------------------------- MODULE ResourcesProof ---------------------------
(* The same inductive argument as ResourcesInd.tla, checked by the TLA+ proof system (tlapm): for all values of the constants with
   ReleaseBeforeJoin = FALSE and K >= 1, the specification Spec of Resources.tla satisfies the invariants the C19 check relies on.    *)
EXTENDS Resources, TLAPS
ASSUME ConstAssump == /\ MaxTables \in Nat /\ MaxCycles \in Nat /\ K \in Nat /\ K >= 1 /\ ReleaseBeforeJoin = FALSE
TypeOK == /\ phase \in {"closed", "open", "locking", "closing", "joined"}
          /\ tables \in Nat /\ tableH \in Nat /\ walH \in {0, 1} /\ flusher \in BOOLEAN
          /\ compactor \in {"none", "idle", "merging"} /\ csel \in Nat /\ released \in BOOLEAN /\ cycles \in Nat
IndInv == /\ TypeOK
          /\ tables <= MaxTables
          /\ phase = "closed" => tableH = 0 /\ walH = 0 /\ compactor = "none"
          /\ phase # "closed" => ~released /\ tableH = tables /\ walH = 1
          /\ flusher <=> phase \in {"open", "locking"}
          /\ phase = "joined" => compactor = "none"
          /\ IF compactor = "merging" THEN csel >= 2 /\ csel <= tables ELSE csel = 0
SafetyP == HandlesBounded /\ ClosedReleasesAll /\ NoGrowthWithCycles

LEMMA InitInd == Init => IndInv
  BY ConstAssump DEF Init, IndInv, TypeOK

LEMMA StepInd == IndInv /\ [Next]_vars => IndInv'
<1> SUFFICES ASSUME IndInv, [Next]_vars PROVE IndInv' OBVIOUS
<1> USE ConstAssump DEF IndInv, TypeOK
<1>1 CASE \E b \in BOOLEAN : Open(b) BY <1>1 DEF Open
<1>2 CASE Flush BY <1>2 DEF Flush
<1>3 CASE CompReflect BY <1>3 DEF CompReflect
<1>4 CASE CloseLock BY <1>4 DEF CloseLock
<1>5 CASE CloseFlusherJoined BY <1>5 DEF CloseFlusherJoined
<1>6 CASE CloseJoin BY <1>6 DEF CloseJoin
<1>7 CASE CloseRelease BY <1>7 DEF CloseRelease
<1>8 CASE \E n \in 2..MaxTables : CompStart(n) BY <1>8 DEF CompStart
<1>9 CASE \E n \in 2..MaxTables : Compact(n) BY <1>9 DEF Compact
<1>10 CASE UNCHANGED vars BY <1>10 DEF vars
<1> QED BY <1>1, <1>2, <1>3, <1>4, <1>5, <1>6, <1>7, <1>8, <1>9, <1>10 DEF Next

LEMMA IndSafe == IndInv => SafetyP
  BY ConstAssump DEF IndInv, TypeOK, SafetyP, HandlesBounded, ClosedReleasesAll, NoGrowthWithCycles, handles, threads

THEOREM Safe == Spec => []SafetyP
<1>1 Spec => []IndInv BY InitInd, StepInd, PTL DEF Spec
<1> QED BY <1>1, IndSafe, PTL
=============================================================================
