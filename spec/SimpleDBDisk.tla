---------------------------- MODULE SimpleDBDisk ----------------------------
(* Disk protocol of simpledb at the grain at which a kill -9 can separate two steps (flush.go, compaction.go,
   sstable_manager.go reflectCompactionResult, recovery.go, package wal).  Crash is enabled in every state, also inside recovery.
   RecMap = what the intended recovery reconstructs from the disk alone.  Switches reproduce defective designs (negative
   self-tests): DropTombAlways (S1), SizeRotate (S11), WalRemoveAnyOrder (S12), RecFinishRenameFirst, RotateDropsBuffer.
   Async = TRUE is the asynchronous WAL (C13): appends are buffered, reach the file in pieces, a kill loses the buffer.                         *)
EXTENDS Naturals, Sequences, FiniteSets, TLC, SequencesExt
CONSTANTS Keys, Vals, MaxOps, MaxGen, MaxWal,
          MaxCrash, DropTombAlways,      \* TRUE = code as read (S1)
          SizeRotate,          \* TRUE = model size-triggered WAL rotation without flush (S11)
          WalRemoveAnyOrder,   \* TRUE = RemoveAll(wal) unlinks in any order (S12)
          RecFinishRenameFirst, \* TRUE = recovery renames merged table before deleting inputs (code as read)
          Async,               \* TRUE = asynchronous WAL: appends go to a write buffer that reaches the file later, in pieces (C13)
          RotateDropsBuffer,   \* TRUE = a rotation does not write the buffered appends out first (negative switch for the async model)
          RotateInflight       \* TRUE = a mutation may rotate between its log append and its memstore update (negative switch: the record is in the
                               \*        old file, which the flush of the old store unlinks, the entry in the new store, which only the new file covers)
NONE == "none"
TOMB == "tomb"
Empty == [k \in Keys |-> NONE]
NoOp == [k |-> "-", v |-> "-"]
Over(lo, hi) == [k \in Keys |-> IF hi[k] # NONE THEN hi[k] ELSE lo[k]]
Vis(m) == [k \in Keys |-> IF m[k] = TOMB THEN NONE ELSE m[k]]
\* the last operation on a key decides (no recursion: WAL files of real sessions hold hundreds of operations)
ApplyOps(m, ops) == [k \in Keys |-> LET i == SelectLastInSeq(ops, LAMBDA o : o.k = k) IN IF i = 0 THEN m[k] ELSE ops[i].v]

VARIABLES
  wals,     \* [n -> Seq(op)] for existing WAL files (n : Nat)
  cur,      \* number of the current WAL file (or 0 when none)
  tdirs,    \* [g -> [ok: BOOL, broken: BOOL, data: map]] existing table dirs; ok = metadata present (complete unless broken);
            \* broken = a RemoveAll already unlinked index / data while the metadata is still there: the table cannot be opened
  cdir,     \* compaction dir: [st: "none"|"partial"|"complete"|"flagged", inputs: Seq(gen), data: map]
  \* in-memory
  mem, imm, immWal, tables, gen, fpc, cpc, csel,
  mode,     \* "run" | "rec"
  rpc,      \* recovery pc
  rmem,     \* memstore being rebuilt by replay
  \* asynchronous WAL
  wbuf,     \* appended operations that are still in the writer's buffer (lost by a kill)
  \* history
  model, nops, inflight, ncrash,
  applied,  \* async: acknowledged operations since the last crash / start, in order;  base: the map they apply to;
  base, rotn \* rotn: Len(applied) at the last WAL rotation - everything before it is on disk
vars == <<wals, cur, tdirs, cdir, mem, imm, immWal, tables, gen, fpc, cpc, csel, mode, rpc, rmem, wbuf, model, nops, inflight, ncrash, applied, base, rotn>>
AV == <<wbuf, applied, base, rotn>>

Gens(d) == DOMAIN d
SortedSeq(S) == SetToSortSeq(S, LAMBDA x, y : x < y)
RECURSIVE StackG(_, _)
StackG(d, gs) == IF gs = <<>> THEN Empty ELSE Over(StackG(d, SubSeq(gs, 1, Len(gs)-1)), d[gs[Len(gs)]].data)

\* ---------- what an (intended) recovery would reconstruct from the disk alone ----------
RecTables ==
  LET okg == {g \in DOMAIN tdirs : tdirs[g].ok /\ ~tdirs[g].broken} IN
  IF cdir.st = "flagged"
  THEN LET ins == {cdir.inputs[i] : i \in 1..Len(cdir.inputs)}
           repl == cdir.inputs[1]
           rest == okg \ ins
       IN [g \in rest \cup {repl} |-> IF g = repl THEN [ok |-> TRUE, broken |-> FALSE, data |-> cdir.data] ELSE tdirs[g]]
  ELSE [g \in okg |-> tdirs[g]]
RecWalOps ==
  LET ns == SortedSeq(DOMAIN wals) IN
  LET RECURSIVE cat(_)
      cat(i) == IF i > Len(ns) THEN <<>> ELSE wals[ns[i]] \o cat(i+1)
  IN cat(1)
RecMap == Vis(ApplyOps(StackG(RecTables, SortedSeq(DOMAIN RecTables)), RecWalOps))

Allowed == IF inflight = NoOp THEN {Vis(model)}
           ELSE {Vis(model), Vis([model EXCEPT ![inflight.k] = inflight.v])}

\* os.RemoveAll(table directory) unlinks the files one by one in directory listing order and can be killed in between: the metadata may go
\* first (the directory then counts as incomplete and is dropped by recovery) or another file first (metadata still there, table unreadable).
\* A removal action may therefore take one or two steps; it stays enabled until the directory is gone.
Without(d, g) == [x \in DOMAIN d \ {g} |-> d[x]]
RemoveOutcomes(d, g) == {Without(d, g)} \cup (IF d[g].ok /\ ~d[g].broken
                                              THEN {[d EXCEPT ![g].broken = TRUE], [d EXCEPT ![g].ok = FALSE]} ELSE {})
Ins == {cdir.inputs[i] : i \in 1..Len(cdir.inputs)}
\* a table that looks complete but misses files makes Open fail - unless a flagged compaction that lists it finishes the removal first
OpenFails == \E g \in DOMAIN tdirs : tdirs[g].ok /\ tdirs[g].broken /\ ~(cdir.st = "flagged" /\ g \in Ins)
\* C13: some prefix of the acknowledged sequence that contains everything before the last rotation (plus, possibly, the operation in flight)
AllowedAsync == {Vis(ApplyOps(base, SubSeq(applied, 1, n))) : n \in rotn..Len(applied)}
                \cup (IF inflight = NoOp THEN {} ELSE {Vis(ApplyOps(base, Append(applied, inflight)))})
CrashSafe == ~OpenFails /\ RecMap \in (IF Async THEN AllowedAsync ELSE Allowed)

\* ---------- initial state: opened empty database ----------
Init == /\ wals = (1 :> <<>>) /\ cur = 1 /\ tdirs = <<>> /\ cdir = [st |-> "none", inputs |-> <<>>, data |-> Empty]
        /\ mem = Empty /\ imm = Empty /\ immWal = {} /\ tables = <<>> /\ gen = 0 /\ fpc = "idle" /\ cpc = "idle" /\ csel = <<>>
        /\ mode = "run" /\ rpc = "none" /\ rmem = Empty /\ model = Empty /\ nops = 0 /\ inflight = NoOp /\ ncrash = 0
        /\ wbuf = <<>> /\ applied = <<>> /\ base = Empty /\ rotn = 0

\* ---------- client ----------
WalWrite(k, v) == /\ mode = "run" /\ inflight = NoOp /\ nops < MaxOps
                  /\ inflight' = [k |-> k, v |-> v]
                  /\ IF Async THEN wbuf' = Append(wbuf, [k |-> k, v |-> v]) /\ UNCHANGED wals
                     ELSE wals' = [wals EXCEPT ![cur] = Append(@, [k |-> k, v |-> v])] /\ UNCHANGED wbuf
                  /\ nops' = nops + 1
                  /\ UNCHANGED <<cur, tdirs, cdir, mem, imm, immWal, tables, gen, fpc, cpc, csel, mode, rpc, rmem, model, applied, base, rotn>>
AckOp == /\ mode = "run" /\ inflight # NoOp
         /\ mem' = [mem EXCEPT ![inflight.k] = inflight.v]
         /\ model' = [model EXCEPT ![inflight.k] = inflight.v]
         /\ inflight' = NoOp
         /\ applied' = (IF Async THEN Append(applied, inflight) ELSE applied)
         /\ UNCHANGED <<wals, cur, tdirs, cdir, imm, immWal, tables, gen, fpc, cpc, csel, mode, rpc, rmem, nops, wbuf, base, rotn>>
\* the buffered writer hands a piece of its buffer to the file (a cut inside a record is ignored by the replay: whole records only)
BufFlush == /\ Async /\ mode = "run" /\ wbuf # <<>>
            /\ \E n \in 1..Len(wbuf) : /\ wals' = [wals EXCEPT ![cur] = @ \o SubSeq(wbuf, 1, n)]
                                        /\ wbuf' = SubSeq(wbuf, n + 1, Len(wbuf))
            /\ UNCHANGED <<cur, tdirs, cdir, mem, imm, immWal, tables, gen, fpc, cpc, csel, mode, rpc, rmem, model, nops, inflight, ncrash, applied, base, rotn>>
\* forced rotation in lock-step with the memstore (needs flusher idle: unbuffered channel)
Rotate == /\ mode = "run" /\ (inflight = NoOp \/ RotateInflight) /\ fpc = "idle" /\ mem # Empty /\ cur < MaxWal
          \* closing the old file writes its buffer out
          /\ wals' = [wals EXCEPT ![cur] = IF RotateDropsBuffer THEN @ ELSE @ \o wbuf] @@ ((cur + 1) :> <<>>) /\ cur' = cur + 1
          /\ wbuf' = <<>> /\ rotn' = Len(applied)
          /\ imm' = mem /\ immWal' = {cur} /\ mem' = Empty /\ fpc' = "taken"
          /\ UNCHANGED <<tdirs, cdir, tables, gen, cpc, csel, mode, rpc, rmem, model, nops, inflight, applied, base>>
\* size-triggered rotation inside Append: new file, no hand-off
SizeRot == /\ SizeRotate /\ mode = "run" /\ inflight = NoOp /\ wals[cur] # <<>> /\ cur < MaxWal
           /\ wals' = wals @@ ((cur + 1) :> <<>>) /\ cur' = cur + 1
           /\ UNCHANGED <<tdirs, cdir, mem, imm, immWal, tables, gen, fpc, cpc, csel, mode, rpc, rmem, model, nops, inflight, wbuf, applied, base, rotn>>

\* ---------- flusher ----------
FlushMk == /\ mode = "run" /\ fpc = "taken" /\ gen < MaxGen
           /\ gen' = gen + 1 /\ tdirs' = tdirs @@ ((gen + 1) :> [ok |-> FALSE, broken |-> FALSE, data |-> imm]) /\ fpc' = "writing"
           /\ UNCHANGED <<wals, cur, cdir, mem, imm, immWal, tables, cpc, csel, mode, rpc, rmem, model, nops, inflight, wbuf, applied, base, rotn>>
FlushDone == /\ mode = "run" /\ fpc = "writing"
             /\ tdirs' = [tdirs EXCEPT ![gen] = [@ EXCEPT !.ok = TRUE]] /\ fpc' = "written"
             /\ UNCHANGED <<wals, cur, cdir, mem, imm, immWal, tables, gen, cpc, csel, mode, rpc, rmem, model, nops, inflight, wbuf, applied, base, rotn>>
FlushUnlink == /\ mode = "run" /\ fpc = "written"
               /\ wals' = [n \in DOMAIN wals \ immWal |-> wals[n]] /\ fpc' = "unlinked"
               /\ UNCHANGED <<cur, tdirs, cdir, mem, imm, immWal, tables, gen, cpc, csel, mode, rpc, rmem, model, nops, inflight, wbuf, applied, base, rotn>>
FlushInstall == /\ mode = "run" /\ fpc = "unlinked" /\ cpc # "reflect"
                /\ tables' = Append(tables, gen) /\ fpc' = "idle"   \* imm stays as read store (same content as the table)
                /\ UNCHANGED <<wals, cur, tdirs, cdir, mem, imm, immWal, gen, cpc, csel, mode, rpc, rmem, model, nops, inflight, wbuf, applied, base, rotn>>

\* ---------- compactor: any gap-free run of >= 2 live tables ----------
Merged(run) == LET m == StackG(tdirs, run) IN
               IF DropTombAlways \/ run[1] = tables[1] THEN [k \in Keys |-> IF m[k] = TOMB THEN NONE ELSE m[k]] ELSE m
CompSelect == /\ mode = "run" /\ cpc = "idle" /\ cdir.st = "none"
              /\ \E i, j \in 1..Len(tables) : i < j /\ csel' = SubSeq(tables, i, j)
              /\ cpc' = "selected"
              /\ UNCHANGED <<wals, cur, tdirs, cdir, mem, imm, immWal, tables, gen, fpc, mode, rpc, rmem, model, nops, inflight, wbuf, applied, base, rotn>>
CompMk == /\ mode = "run" /\ cpc = "selected"
          /\ cdir' = [st |-> "partial", inputs |-> csel, data |-> Merged(csel)] /\ cpc' = "merging"
          /\ UNCHANGED <<wals, cur, tdirs, mem, imm, immWal, tables, gen, fpc, csel, mode, rpc, rmem, model, nops, inflight, wbuf, applied, base, rotn>>
CompDone == /\ mode = "run" /\ cpc = "merging" /\ cdir' = [cdir EXCEPT !.st = "complete"] /\ cpc' = "merged"
            /\ UNCHANGED <<wals, cur, tdirs, mem, imm, immWal, tables, gen, fpc, csel, mode, rpc, rmem, model, nops, inflight, wbuf, applied, base, rotn>>
CompFlag == /\ mode = "run" /\ cpc = "merged" /\ cdir' = [cdir EXCEPT !.st = "flagged"] /\ cpc' = "reflect"
            /\ UNCHANGED <<wals, cur, tdirs, mem, imm, immWal, tables, gen, fpc, csel, mode, rpc, rmem, model, nops, inflight, wbuf, applied, base, rotn>>
\* reflect: remove inputs ascending (each RemoveAll one or two steps, see RemoveOutcomes), then rename
ReflRemove == /\ mode = "run" /\ cpc = "reflect" /\ inflight = NoOp
              /\ \E g \in DOMAIN tdirs : /\ g \in {csel[i] : i \in 1..Len(csel)}
                                         /\ \A h \in DOMAIN tdirs : h \in {csel[i] : i \in 1..Len(csel)} => g <= h
                                         /\ tdirs' \in RemoveOutcomes(tdirs, g)
              /\ UNCHANGED <<wals, cur, cdir, mem, imm, immWal, tables, gen, fpc, cpc, csel, mode, rpc, rmem, model, nops, inflight, wbuf, applied, base, rotn>>
ReflRename == /\ mode = "run" /\ cpc = "reflect" /\ inflight = NoOp
              /\ \A i \in 1..Len(csel) : csel[i] \notin DOMAIN tdirs
              /\ tdirs' = tdirs @@ (csel[1] :> [ok |-> TRUE, broken |-> FALSE, data |-> cdir.data])
              /\ cdir' = [st |-> "none", inputs |-> <<>>, data |-> Empty]
              /\ tables' = SelectSeq(tables, LAMBDA g : g = csel[1] \/ g \notin {csel[i] : i \in 1..Len(csel)})
              /\ cpc' = "idle" /\ csel' = <<>>
              /\ UNCHANGED <<wals, cur, mem, imm, immWal, gen, fpc, mode, rpc, rmem, model, nops, inflight, wbuf, applied, base, rotn>>

\* ---------- crash and recovery (each step one or a few syscalls) ----------
Crash == /\ mode = "run" /\ ncrash < MaxCrash /\ ncrash' = ncrash + 1 /\ mode' = "rec" /\ rpc' = "compactions"
         /\ mem' = Empty /\ imm' = Empty /\ immWal' = {} /\ tables' = <<>> /\ fpc' = "idle" /\ cpc' = "idle" /\ csel' = <<>> /\ rmem' = Empty
         /\ model' = IF Async THEN RecMap
                     ELSE IF inflight # NoOp /\ RecMap = Vis([model EXCEPT ![inflight.k] = inflight.v]) THEN [model EXCEPT ![inflight.k] = inflight.v] ELSE model
         /\ inflight' = NoOp
         /\ wbuf' = <<>> /\ applied' = <<>> /\ rotn' = 0 /\ base' = (IF Async THEN RecMap ELSE base)
         /\ UNCHANGED <<wals, cur, tdirs, cdir, gen, nops>>
ReCrash == /\ mode = "rec" /\ ncrash < MaxCrash /\ ncrash' = ncrash + 1 /\ rpc' = "compactions" /\ rmem' = Empty /\ tables' = <<>>
           /\ UNCHANGED <<wals, cur, tdirs, cdir, mem, imm, immWal, gen, fpc, cpc, csel, mode, model, nops, inflight, wbuf, applied, base, rotn>>
RcDiscard == /\ mode = "rec" /\ rpc = "compactions" /\ cdir.st \in {"none", "partial", "complete"}
             /\ cdir' = [st |-> "none", inputs |-> <<>>, data |-> Empty] /\ rpc' = "load"
             /\ UNCHANGED <<wals, cur, tdirs, mem, imm, immWal, tables, gen, fpc, cpc, csel, mode, rmem, model, nops, inflight, wbuf, applied, base, rotn>>
RcFinRemoveRepl == /\ mode = "rec" /\ rpc = "compactions" /\ cdir.st = "flagged" /\ cdir.inputs[1] \in DOMAIN tdirs
                   /\ (~RecFinishRenameFirst => \A g \in Ins : g \notin DOMAIN tdirs \/ g >= cdir.inputs[1])
                   /\ tdirs' \in RemoveOutcomes(tdirs, cdir.inputs[1])
                   /\ UNCHANGED <<wals, cur, cdir, mem, imm, immWal, tables, gen, fpc, cpc, csel, mode, rpc, rmem, model, nops, inflight, wbuf, applied, base, rotn>>
RcFinRename == /\ mode = "rec" /\ rpc = "compactions" /\ cdir.st = "flagged" /\ cdir.inputs[1] \notin DOMAIN tdirs
               /\ (~RecFinishRenameFirst => \A g \in Ins : g \notin DOMAIN tdirs)
               /\ tdirs' = tdirs @@ (cdir.inputs[1] :> [ok |-> TRUE, broken |-> FALSE, data |-> cdir.data])
               /\ csel' = cdir.inputs
               /\ cdir' = [st |-> "none", inputs |-> <<>>, data |-> Empty] /\ rpc' = "fininputs"
               /\ UNCHANGED <<wals, cur, mem, imm, immWal, tables, gen, fpc, cpc, mode, rmem, model, nops, inflight, wbuf, applied, base, rotn>>
RcFinRemoveOther == /\ mode = "rec" /\ cdir.st = "flagged" /\ ~RecFinishRenameFirst /\ rpc = "compactions"
                    /\ \E g \in Ins \cap DOMAIN tdirs : g # cdir.inputs[1] /\ (\A h \in (Ins \cap DOMAIN tdirs) \ {cdir.inputs[1]} : g <= h)
                          /\ tdirs' \in RemoveOutcomes(tdirs, g)
                    /\ UNCHANGED <<wals, cur, cdir, mem, imm, immWal, tables, gen, fpc, cpc, csel, mode, rpc, rmem, model, nops, inflight, wbuf, applied, base, rotn>>
RcFinInputs == /\ mode = "rec" /\ rpc = "fininputs"
               /\ LET left == {csel[i] : i \in 2..Len(csel)} \cap DOMAIN tdirs IN
                  IF left = {} THEN rpc' = "load" /\ csel' = <<>> /\ UNCHANGED tdirs
                  ELSE \E g \in left : (\A h \in left : g <= h) /\ tdirs' \in RemoveOutcomes(tdirs, g) /\ UNCHANGED <<rpc, csel>>
               /\ UNCHANGED <<wals, cur, cdir, mem, imm, immWal, tables, gen, fpc, cpc, mode, rmem, model, nops, inflight, wbuf, applied, base, rotn>>
\* load complete tables sorted; (intended) ignore + remove incomplete ones; restore generation
RcLoad == /\ mode = "rec" /\ rpc = "load" /\ ~OpenFails
          /\ LET okg == {g \in DOMAIN tdirs : tdirs[g].ok} IN
             /\ tdirs' = [g \in okg |-> tdirs[g]]
             /\ tables' = SortedSeq(okg)
             /\ gen' = IF DOMAIN tdirs = {} THEN 0 ELSE CHOOSE g \in DOMAIN tdirs : \A h \in DOMAIN tdirs : h <= g
          /\ rpc' = "replay"
          /\ UNCHANGED <<wals, cur, cdir, mem, imm, immWal, fpc, cpc, csel, mode, rmem, model, nops, inflight, wbuf, applied, base, rotn>>
RcReplay == /\ mode = "rec" /\ rpc = "replay"
            /\ rmem' = ApplyOps(Empty, RecWalOps)
            /\ rpc' = IF RecWalOps = <<>> THEN "rmwal" ELSE "flushmk"
            /\ UNCHANGED <<wals, cur, tdirs, cdir, mem, imm, immWal, tables, gen, fpc, cpc, csel, mode, model, nops, inflight, wbuf, applied, base, rotn>>
RcFlushMk == /\ mode = "rec" /\ rpc = "flushmk" /\ gen < MaxGen
             /\ gen' = gen + 1 /\ tdirs' = tdirs @@ ((gen + 1) :> [ok |-> FALSE, broken |-> FALSE, data |-> rmem]) /\ rpc' = "flushdone"
             /\ UNCHANGED <<wals, cur, cdir, mem, imm, immWal, tables, fpc, cpc, csel, mode, rmem, model, nops, inflight, wbuf, applied, base, rotn>>
RcFlushDone == /\ mode = "rec" /\ rpc = "flushdone"
               /\ tdirs' = [tdirs EXCEPT ![gen] = [@ EXCEPT !.ok = TRUE]] /\ tables' = Append(tables, gen) /\ rpc' = "rmwal"
               /\ UNCHANGED <<wals, cur, cdir, mem, imm, immWal, gen, fpc, cpc, csel, mode, rmem, model, nops, inflight, wbuf, applied, base, rotn>>
RcRmWal == /\ mode = "rec" /\ rpc = "rmwal"
           /\ IF DOMAIN wals = {} THEN rpc' = "newwal" /\ UNCHANGED wals
              ELSE \E n \in DOMAIN wals : (WalRemoveAnyOrder \/ \A h \in DOMAIN wals : n <= h)
                                          /\ wals' = [x \in DOMAIN wals \ {n} |-> wals[x]] /\ UNCHANGED rpc
           /\ UNCHANGED <<cur, tdirs, cdir, mem, imm, immWal, tables, gen, fpc, cpc, csel, mode, rmem, model, nops, inflight, wbuf, applied, base, rotn>>
RcNewWal == /\ mode = "rec" /\ rpc = "newwal"
            /\ wals' = (1 :> <<>>) /\ cur' = 1 /\ imm' = rmem /\ rmem' = Empty /\ mode' = "run" /\ rpc' = "none"
            /\ UNCHANGED <<tdirs, cdir, mem, immWal, tables, gen, fpc, cpc, csel, model, nops, inflight, wbuf, applied, base, rotn>>

NextNC == \/ \E k \in Keys : \E v \in Vals \cup {TOMB} : WalWrite(k, v)
        \/ AckOp \/ BufFlush \/ Rotate \/ SizeRot \/ FlushMk \/ FlushDone \/ FlushUnlink \/ FlushInstall
        \/ CompSelect \/ CompMk \/ CompDone \/ CompFlag \/ ReflRemove \/ ReflRename
        \/ RcDiscard \/ RcFinRemoveRepl \/ RcFinRename \/ RcFinRemoveOther \/ RcFinInputs
        \/ RcLoad \/ RcReplay \/ RcFlushMk \/ RcFlushDone \/ RcRmWal \/ RcNewWal
Next == \/ Crash \/ ReCrash \/ (UNCHANGED ncrash /\ NextNC)
Spec == Init /\ [][Next]_vars
\* live reads equal the model while running
LiveMap == Vis(Over(Over(StackG(tdirs, tables), imm), mem))
ReadsLikeMap == mode = "run" /\ inflight = NoOp /\ cpc # "reflect" => LiveMap = Vis(model)
StepProperty == [][RecMap' = RecMap \/ (inflight' # NoOp /\ RecMap' = Vis([model EXCEPT ![inflight'.k] = inflight'.v]))]_vars
====
