SPECIFICATION Spec
CONSTANTS
  Ranks = {1, 3, 5, 7}
  Vals = {"vA", "EMPTY", "NIL"}
  Faults = {""}
  MaxWrites = 4
INVARIANTS GenLeaf
CHECK_DEADLOCK FALSE
