SPECIFICATION Spec
CONSTANTS
  Ranks = {0, 1, 2, 3}
  Vals = {"vA", "EMPTY", "NIL"}
  Faults = {"", "data", "index"}
  MaxWrites = 3
INVARIANTS GenLeaf
CHECK_DEADLOCK FALSE
