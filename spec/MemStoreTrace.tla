---------------------------- MODULE MemStoreTrace ----------------------------
(* Judge for executions of the real memstore (verdict-list mode, DESIGN §4.2).
   Trace lines:  {"t":"reset","case":n}
                 {"t":"call","op":..,"k":rank|-1,"v":token,"kl":n,"vl":n,"r":reply,"size":n,"est":n}
                 {"t":"iter","out":[[rank,token],..]}
                 {"t":"flush","tomb":bool,"err":"", "out":[[rank,token],..]}
   A reply that contradicts the specification is recorded in `bad` and the rest of the case is skipped. *)
EXTENDS MemStore, IOUtils

Trace == ndJsonDeserialize(IOEnv.TRACE)

VARIABLES l, bad, nok, skip, cs
tvars == <<m, est, last, hist, l, bad, nok, skip, cs>>

TInit == /\ m = <<>> /\ est = 0 /\ last = NoCall /\ hist = <<>>
         /\ l = 1 /\ bad = <<>> /\ nok = 0 /\ skip = FALSE /\ cs = -1

Ev == Trace[l]
Fail(clause, exp) == /\ bad' = Append(bad, [case |-> cs, line |-> l, clause |-> clause, expected |-> ToString(exp), got |-> ToString(Ev)])
                     /\ skip' = TRUE /\ UNCHANGED nok
Pass == UNCHANGED <<bad, skip>> /\ nok' = nok + 1

Step ==
  /\ l <= Len(Trace) /\ l' = l + 1 /\ UNCHANGED <<last, hist>>
  /\ IF Ev.t = "reset" THEN m' = <<>> /\ est' = 0 /\ skip' = FALSE /\ cs' = Ev.case /\ UNCHANGED <<bad, nok>>
     ELSE IF skip THEN UNCHANGED <<m, est, bad, nok, skip, cs>>
     ELSE /\ UNCHANGED cs
          /\ CASE Ev.t = "call" ->
                    LET a == Apply(m, est, Ev) IN
                    /\ m' = a.m /\ est' = a.est
                    /\ IF a.r # Ev.r THEN Fail("reply", a.r)
                       ELSE IF Ev.size # SizeOf(a.m) THEN Fail("size", SizeOf(a.m))
                       ELSE IF ~EstOk(a.est, Ev.est) THEN Fail("estimate", a.est)
                       ELSE Pass
               [] Ev.t = "iter" ->
                    /\ UNCHANGED <<m, est>>
                    /\ IF Ev.out # Iteration(m) THEN Fail("iteration", Iteration(m)) ELSE Pass
               [] Ev.t = "flush" ->
                    /\ UNCHANGED <<m, est>>
                    /\ IF Ev.err # "" THEN Fail("flush-error", "no error")
                       ELSE IF Ev.out # FlushTable(m, Ev.tomb) THEN Fail("flush-content", FlushTable(m, Ev.tomb)) ELSE Pass
               [] OTHER -> UNCHANGED <<m, est>> /\ Fail("unknown-event", "")

TSpec == TInit /\ [][Step]_tvars

\* evaluated at every step of the real execution
TEstNeverNegative == est >= 0
TEstIsSum == Cardinality(DOMAIN m) <= 40 => est = SumOver(m, DOMAIN m)

Report == (l = Len(Trace) + 1) => PrintT(<<"VERDICT", nok, ToJson(bad)>>)
=============================================================================
