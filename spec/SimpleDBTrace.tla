--------------------------- MODULE SimpleDBTrace ---------------------------
(* White-box trace validation of real simpledb executions (hook events of build tag "verif", DESIGN §4.1).
   The actions mirror SimpleDB.tla one to one and share its algebra (SimpleDBOps):

     event               SimpleDB.tla action          code site
     put / del           Mutate / PutRotate (1st half) db.go PutBytes / DeleteBytes (after WAL append, under the write lock)
     rotate              PutRotate (swap)              flush.go swapMemstore
     handoff             Handoff                       flush.go rotateWalAndFlushMemstore after the channel send
     flush.take/written/walrm   FlushWrite             flush.go executeFlush
     install             FlushInstall                  sstable_manager.go addReader (manager lock held)
     compact.candidates/select  CompactSelect          sstable_manager.go candidateTablesForCompaction (manager read lock held)
     compact.merged      CompactMerge                  compaction.go executeCompaction
     reflect.begin/done  CompactReflect                sstable_manager.go reflectCompactionResult (both locks held)
     open / close.*      Open / Close                  db.go
     inv / ret           client call boundaries (harness); a Get may return any value the reference read had while it was pending

   Every event is checked by `Check`; the first clause that fails is recorded in `bad` together with the line, and the rest of
   that case is skipped (verdict-list mode).  Invariants are evaluated in every state of the real execution.                  *)
EXTENDS SimpleDBOps, Json, IOUtils

Trace == ndJsonDeserialize(IOEnv.TRACE)

VARIABLES mem, imm, queue, fpc, tables, gen, refl, csel, cout, ccfg, cfg, model, phase, pend, credit, seen, l, bad, nok, skip, cs
tvars == <<mem, imm, queue, fpc, tables, gen, refl, csel, cout, ccfg, cfg, model, phase, pend, credit, seen, l, bad, nok, skip, cs>>

NoCfg == [thr |-> 0, maxSize |-> 0, ratio |-> 0]
ResetState ==
  /\ mem' = Empty /\ imm' = Empty /\ queue' = <<>> /\ fpc' = "idle" /\ tables' = <<>> /\ gen' = 0 /\ refl' = FALSE
  /\ csel' = <<>> /\ cout' = Empty /\ ccfg' = NoCfg /\ cfg' = NoCfg /\ model' = Empty /\ phase' = "closed" /\ pend' = <<>>
  /\ credit' = [k \in Keys |-> 0] /\ seen' = <<>>

TInit == /\ mem = Empty /\ imm = Empty /\ queue = <<>> /\ fpc = "idle" /\ tables = <<>> /\ gen = 0 /\ refl = FALSE
         /\ csel = <<>> /\ cout = Empty /\ ccfg = NoCfg /\ cfg = NoCfg /\ model = Empty /\ phase = "closed" /\ pend = <<>>
         /\ credit = [k \in Keys |-> 0] /\ seen = <<>>
         /\ l = 1 /\ bad = <<>> /\ nok = 0 /\ skip = FALSE /\ cs = -1

Ev == Trace[l]
ReadOf(ts, i, m) == Vis(Over(Over(Stack(ts), i), m))
ReadNow == ReadOf(tables, imm, mem)
MetaEq(t, e) == t.gen = e.gen /\ t.nrec = e.nrec /\ t.ntomb = e.ntomb /\ t.bytes = e.bytes
MetasEq(ts, es) == Len(ts) = Len(es) /\ \A i \in 1..Len(ts) : MetaEq(ts[i], es[i])
Norm(fl, c) == IF fl = "string" /\ c = "nil" THEN "empty" ELSE c
Valid(p) == Norm(p.fl, p.kc) = "ok" /\ Norm(p.fl, p.vc) = "ok"
ClassOf(p) == <<p.op, Norm(p.fl, p.kc), Norm(p.fl, p.vc)>>
Verdict(p, r) == IF p.op = "getx" THEN r ELSE IF r = "ok" THEN "ok" ELSE "rejected"
\* a Delete with a nil / empty key is a Delete of the empty key (rank given by the harness); it may be accepted or rejected
PendingDels(k) == Cardinality({g \in DOMAIN pend : pend[g].op \in {"del", "delx"} /\ pend[g].k = k})

\* ------------------------------------------------------------------ per event: failing clause ("ok" when the event conforms)
Check ==
  CASE Ev.t = "open" ->
         IF phase # "closed" THEN "open-while-open"
         ELSE IF ~MetasEq(tables, Ev.tables) THEN "open-tables-differ-from-closed-state"
         ELSE IF Ev.gen # (IF tables = <<>> THEN 0 ELSE Max({tables[i].gen : i \in 1..Len(tables)})) THEN "open-generation"
         ELSE "ok"
    [] Ev.t = "inv" -> IF Ev.g \in DOMAIN pend THEN "inv-while-pending" ELSE IF phase # "open" THEN "inv-while-closed" ELSE "ok"
    [] Ev.t = "ret" ->
         IF Ev.g \notin DOMAIN pend THEN "ret-without-inv"
         ELSE LET p == pend[Ev.g] IN
              IF p.op \in {"get", "getx"} THEN (IF Ev.r \in p.cand THEN "ok" ELSE "get-reply")
              ELSE IF p.op \in {"putx", "delx"} /\ ~Valid(p) THEN
                   \* C17: invalid arguments - Put must reject them (documented); a rejected call has no effect; both flavours agree
                   (IF p.op = "putx" /\ Ev.r = "ok" THEN "invalid-argument-accepted"
                    ELSE IF Ev.r # "ok" /\ (p.done \/ (p.op = "delx" /\ credit[p.k] >= PendingDels(p.k))) THEN "rejected-call-had-effect"
                    ELSE IF p.op = "delx" /\ Ev.r = "ok" /\ credit[p.k] = 0 THEN "del-returned-without-effect"
                    ELSE IF ClassOf(p) \in DOMAIN seen /\ seen[ClassOf(p)] # Verdict(p, Ev.r) THEN "flavours-disagree"
                    ELSE "ok")
              ELSE IF Ev.r # "ok" THEN
                   \* C17: an error is acceptable only where the options refuse mutations; then the call must not have had an effect
                   (IF ~p.mf THEN "mutation-failed"
                    ELSE IF p.done \/ (p.op \in {"del", "delx"} /\ credit[p.k] >= PendingDels(p.k)) THEN "rejected-call-had-effect" ELSE "ok")
              ELSE IF p.op \in {"put", "putx"} THEN (IF p.done THEN "ok" ELSE "put-returned-without-effect")
              ELSE (IF credit[p.k] > 0 THEN "ok" ELSE "del-returned-without-effect")
    [] Ev.t = "put" ->
         IF refl THEN "put-during-reflect"
         ELSE IF ~(\E g \in DOMAIN pend : pend[g].op \in {"put", "putx"} /\ Valid(pend[g]) /\ pend[g].k = Ev.k /\ pend[g].v = Ev.v /\ ~pend[g].done) THEN "put-without-call"
         ELSE "ok"
    [] Ev.t = "del" ->
         IF refl THEN "del-during-reflect"
         ELSE IF PendingDels(Ev.k) <= credit[Ev.k] THEN "del-without-call" ELSE "ok"
    [] Ev.t = "rotate" ->
         IF refl THEN "rotate-during-reflect"
         ELSE IF Ev.n # NRec(mem) THEN "rotate-size" ELSE "ok"
    [] Ev.t = "handoff" ->
         \* unbuffered channel: the flusher takes a store only after the previous table is installed
         IF Len(queue) > 1 THEN "handoff-before-previous-install" ELSE "ok"
    [] Ev.t = "flush.take" ->
         IF queue = <<>> THEN "flush-take-nothing"
         ELSE IF fpc # "idle" THEN "flush-take-while-busy"
         ELSE IF Ev.n # NRec(Head(queue)) THEN "flush-take-size"
         ELSE IF Ev.gen # gen + 1 THEN "flush-generation" ELSE "ok"
    [] Ev.t = "flush.skip" -> IF queue # <<>> /\ Head(queue) # Empty /\ fpc = "idle" /\ Ev.barrier = FALSE THEN "flush-skip-nonempty" ELSE "ok"
    [] Ev.t = "flush.written" -> IF fpc # "taken" THEN "flush-written-out-of-order" ELSE "ok"
    [] Ev.t = "flush.walrm" -> IF fpc # "written" THEN "wal-removed-before-table-written" ELSE "ok"
    [] Ev.t = "install" ->
         IF fpc # "written" THEN "install-before-written"
         ELSE IF refl THEN "install-during-reflect"
         ELSE IF Ev.table.gen # gen THEN "install-generation"
         ELSE IF Ev.table.nrec # NRec(Head(queue)) \/ Ev.table.ntomb # NTomb(Head(queue)) THEN "install-content-counts"
         ELSE IF Ev.gens # Append(GensOf(tables), gen) THEN "install-not-appended-as-newest"
         ELSE "ok"
    [] Ev.t = "compact.candidates" ->
         IF ~MetasEq(tables, Ev.tables) THEN "candidates-metadata"
         ELSE IF ~(Ev.selected = <<>> \/ IsRun(tables, Ev.selected)) THEN "selection-not-a-gap-free-run"
         ELSE "ok"     \* (which gap-free run the options select is policy, not property: see Note)
    [] Ev.t = "compact.select" ->
         IF Ev.selected # csel THEN "select-differs-from-candidates"
         ELSE "ok"     \* (when a selection is worth compacting is policy: see Note)
    [] Ev.t = "compact.merged" ->
         IF Ev.inputs # csel THEN "merged-inputs" ELSE IF csel = <<>> THEN "merged-nothing"
         ELSE IF Ev.replacement # csel[1] THEN "replacement-not-oldest-input" ELSE "ok"
    [] Ev.t = "reflect.begin" -> IF Len(queue) > 1 THEN "reflect-while-rotation-holds-lock" ELSE IF Ev.inputs # csel THEN "reflect-inputs" ELSE "ok"
    [] Ev.t = "reflect.done" ->
         LET nt == Splice(tables, csel, MkMerged(csel[1], cout, 0))
             j  == IdxOfGen(nt, csel[1]) IN
         IF ~refl THEN "reflect-done-without-begin"
         ELSE IF Len(Ev.tables) # Len(nt) \/ GensOf(nt) # [i \in 1..Len(Ev.tables) |-> Ev.tables[i].gen] THEN "reflect-table-list"
         ELSE IF Ev.tables[j].nrec # NRec(cout) \/ Ev.tables[j].ntomb # 0 THEN "merged-table-content-counts"
         ELSE IF ReadOf(nt, imm, mem) # ReadNow THEN "compaction-changed-reads"
         ELSE "ok"
    [] Ev.t = "close.begin" -> IF phase # "open" THEN "close-while-closed" ELSE "ok"
    [] Ev.t = "close.flusher" -> IF queue # <<>> THEN "close-flusher-joined-with-unflushed-store" ELSE "ok"
    [] Ev.t = "close.done" -> IF mem # Empty \/ queue # <<>> THEN "close-with-unflushed-data" ELSE "ok"
    [] Ev.t = "mut-unknown-key" ->
         \* a mutation of a key outside the universe (the empty key): only explainable by a pending call with an invalid key
         IF \E g \in DOMAIN pend : pend[g].op \in {"putx", "delx"} /\ ~Valid(pend[g]) THEN "ok" ELSE "mutation-of-unknown-key"
    [] Ev.t = "crashobs" ->
         \* C17/C02: recovery of the crash image of the quiescent database must succeed and read like the reference map
         IF ~Ev.ok THEN "recovery-failed-on-crash-image"
         ELSE IF \E i \in 1..Len(Ev.m) : Ev.m[i] # model[i - 1] THEN "crash-recovery-differs" ELSE "ok"
    [] Ev.t = "blocked" ->
         \* disabledness test: a step SimpleDB.tla does not enable (Handoff while fpc # idle, CompactReflect / GetStart while the lock is
         \* held) was attempted on the real code and must not have completed before its enabler was released
         IF Ev.still THEN "ok" ELSE "disabled-step-completed"
    [] Ev.t = "bgfail" -> "background-failure"
    \* schedule replay (GenSimpleDBConc.tla): the reply of a Get must be the one the model computed for this very interleaving, and
    \* every step the model enabled must complete on the real code
    [] Ev.t = "schedget" -> IF Ev.exp # Ev.got THEN "get-reply-differs-from-model-schedule" ELSE "ok"
    [] Ev.t = "schedstuck" -> "model-enabled-step-does-not-complete"
    [] Ev.t \in {"rotwal", "note", "scheddone", "libobs"} -> "ok"
    [] OTHER -> "unknown-event"

\* ------------------------------------------------------------------ per event: effect on the specification state
Effect ==
  CASE Ev.t = "open" ->
         /\ phase' = "open" /\ cfg' = Ev.cfg /\ gen' = Ev.gen
         /\ UNCHANGED <<mem, imm, queue, fpc, tables, refl, csel, cout, ccfg, model, pend, credit, seen>>
    [] Ev.t = "inv" ->
         /\ pend' = pend @@ (Ev.g :> [op |-> Ev.op, k |-> Ev.k, v |-> Ev.v, kc |-> Ev.kc, vc |-> Ev.vc, fl |-> Ev.fl, done |-> FALSE, cand |-> {ReadNow[Ev.k]},
                                            \* mf: the session's options make every mutation fail by design (direct-I/O WAL without the asynchronous mode)
                                            mf |-> IF "mf" \in DOMAIN Ev THEN Ev.mf ELSE FALSE])
         /\ UNCHANGED <<mem, imm, queue, fpc, tables, gen, refl, csel, cout, ccfg, cfg, model, phase, credit, seen>>
    [] Ev.t = "ret" ->
         /\ pend' = [g \in DOMAIN pend \ {Ev.g} |-> pend[g]]
         /\ credit' = IF pend[Ev.g].op \in {"del", "delx"} /\ Ev.r = "ok" THEN [credit EXCEPT ![pend[Ev.g].k] = @ - 1] ELSE credit
         /\ seen' = IF pend[Ev.g].op \in {"putx", "delx"} /\ ~Valid(pend[Ev.g])
                    THEN (ClassOf(pend[Ev.g]) :> Verdict(pend[Ev.g], Ev.r)) @@ seen ELSE seen
         /\ UNCHANGED <<mem, imm, queue, fpc, tables, gen, refl, csel, cout, ccfg, cfg, model, phase>>
    [] Ev.t = "put" ->
         /\ mem' = [mem EXCEPT ![Ev.k] = Ev.v] /\ model' = [model EXCEPT ![Ev.k] = Ev.v]
         /\ LET g == CHOOSE g \in DOMAIN pend : pend[g].op \in {"put", "putx"} /\ Valid(pend[g]) /\ pend[g].k = Ev.k /\ pend[g].v = Ev.v /\ ~pend[g].done
            IN pend' = [pend EXCEPT ![g].done = TRUE]
         /\ UNCHANGED <<imm, queue, fpc, tables, gen, refl, csel, cout, ccfg, cfg, phase, credit, seen>>
    [] Ev.t = "del" ->
         /\ mem' = [mem EXCEPT ![Ev.k] = TOMB] /\ model' = [model EXCEPT ![Ev.k] = NONE]
         /\ credit' = [credit EXCEPT ![Ev.k] = @ + 1]
         /\ UNCHANGED <<imm, queue, fpc, tables, gen, refl, csel, cout, ccfg, cfg, phase, pend, seen>>
    [] Ev.t = "rotate" ->
         /\ imm' = mem /\ mem' = Empty /\ queue' = Append(queue, mem)
         /\ UNCHANGED <<fpc, tables, gen, refl, csel, cout, ccfg, cfg, model, phase, pend, credit, seen>>
    [] Ev.t = "flush.take" ->
         /\ fpc' = "taken" /\ gen' = Ev.gen
         /\ UNCHANGED <<mem, imm, queue, tables, refl, csel, cout, ccfg, cfg, model, phase, pend, credit, seen>>
    [] Ev.t = "flush.skip" ->
         /\ queue' = IF queue # <<>> /\ Head(queue) = Empty /\ fpc = "idle" /\ Ev.barrier = FALSE THEN Tail(queue) ELSE queue
         /\ UNCHANGED <<mem, imm, fpc, tables, gen, refl, csel, cout, ccfg, cfg, model, phase, pend, credit, seen>>
    [] Ev.t = "flush.written" ->
         /\ fpc' = "written"
         /\ UNCHANGED <<mem, imm, queue, tables, gen, refl, csel, cout, ccfg, cfg, model, phase, pend, credit, seen>>
    [] Ev.t = "install" ->
         /\ tables' = Append(tables, MkTable(gen, Head(queue), Ev.table.bytes)) /\ queue' = Tail(queue) /\ fpc' = "idle"
         /\ UNCHANGED <<mem, imm, gen, refl, csel, cout, ccfg, cfg, model, phase, pend, credit, seen>>
    [] Ev.t = "compact.candidates" ->
         /\ csel' = Ev.selected /\ ccfg' = [thr |-> 0, maxSize |-> Ev.maxSize, ratio |-> Ev.ratio]
         /\ UNCHANGED <<mem, imm, queue, fpc, tables, gen, refl, cout, cfg, model, phase, pend, credit, seen>>
    [] Ev.t = "compact.select" ->
         /\ csel' = IF Ev.compacting THEN csel ELSE <<>>
         /\ UNCHANGED <<mem, imm, queue, fpc, tables, gen, refl, cout, ccfg, cfg, model, phase, pend, credit, seen>>
    [] Ev.t = "compact.merged" ->
         /\ cout' = MergedData(tables, csel, FALSE)
         /\ UNCHANGED <<mem, imm, queue, fpc, tables, gen, refl, csel, ccfg, cfg, model, phase, pend, credit, seen>>
    [] Ev.t = "reflect.begin" ->
         /\ refl' = TRUE
         /\ UNCHANGED <<mem, imm, queue, fpc, tables, gen, csel, cout, ccfg, cfg, model, phase, pend, credit, seen>>
    [] Ev.t = "reflect.done" ->
         /\ LET j == IdxOfGen(Splice(tables, csel, MkMerged(csel[1], cout, 0)), csel[1])
            IN tables' = Splice(tables, csel, MkMerged(csel[1], cout, Ev.tables[j].bytes))
         /\ refl' = FALSE /\ csel' = <<>> /\ cout' = Empty
         /\ UNCHANGED <<mem, imm, queue, fpc, gen, ccfg, cfg, model, phase, pend, credit, seen>>
    [] Ev.t = "mut-unknown-key" ->
         /\ pend' = [g \in DOMAIN pend |-> IF pend[g].op \in {"putx", "delx"} /\ ~Valid(pend[g]) THEN [pend[g] EXCEPT !.done = TRUE] ELSE pend[g]]
         /\ UNCHANGED <<mem, imm, queue, fpc, tables, gen, refl, csel, cout, ccfg, cfg, model, phase, credit, seen>>
    [] Ev.t = "close.done" ->
         /\ phase' = "closed" /\ imm' = Empty
         /\ UNCHANGED <<mem, queue, fpc, tables, gen, refl, csel, cout, ccfg, cfg, model, pend, credit, seen>>
    [] OTHER -> UNCHANGED <<mem, imm, queue, fpc, tables, gen, refl, csel, cout, ccfg, cfg, model, phase, pend, credit, seen>>

\* a pending Get may observe every value the reference read takes while it is pending
Observe == TRUE

\* deviations from the selection POLICY of the pinned code (which run the size limit / ratio select, when the file threshold lets it run): C06 only asks
\* for a gap-free run and unchanged reads, so these are notes in the verdict list, never verdicts
Note == IF Ev.t = "compact.candidates" /\ Ev.selected # RunGens(tables, [thr |-> 0, maxSize |-> Ev.maxSize, ratio |-> Ev.ratio]) THEN "note:selection-differs-from-rule"
        ELSE IF Ev.t = "compact.select" /\ Ev.compacting # (Len(csel) > Ev.threshold) THEN "note:threshold-rule"
        ELSE ""
Step ==
  /\ l <= Len(Trace) /\ l' = l + 1
  /\ IF Ev.t = "reset" THEN ResetState /\ skip' = FALSE /\ cs' = Ev.case /\ UNCHANGED <<bad, nok>>
     ELSE IF skip THEN UNCHANGED <<mem, imm, queue, fpc, tables, gen, refl, csel, cout, ccfg, cfg, model, phase, pend, credit, seen, bad, nok, skip, cs>>
     ELSE LET c == Check IN
          IF c # "ok"
          THEN /\ bad' = Append(bad, [case |-> cs, line |-> l, clause |-> c, ev |-> ToString(Ev)])
               /\ skip' = TRUE
               /\ UNCHANGED <<mem, imm, queue, fpc, tables, gen, refl, csel, cout, ccfg, cfg, model, phase, pend, credit, seen, nok, cs>>
          ELSE /\ Effect /\ nok' = nok + 1 /\ UNCHANGED <<skip, cs>>
               /\ bad' = IF Note = "" THEN bad ELSE Append(bad, [case |-> cs, line |-> l, clause |-> Note, ev |-> ToString(Ev)])

\* after every conforming step, widen the candidate sets of the pending Gets by the current reference read
Widen ==
  /\ l' = l /\ UNCHANGED <<mem, imm, queue, fpc, tables, gen, refl, csel, cout, ccfg, cfg, model, phase, credit, seen, bad, nok, skip, cs>>
  /\ \E g \in DOMAIN pend : pend[g].op \in {"get", "getx"} /\ ReadNow[pend[g].k] \notin pend[g].cand
  /\ pend' = [g \in DOMAIN pend |-> IF pend[g].op \in {"get", "getx"} THEN [pend[g] EXCEPT !.cand = @ \cup {ReadNow[pend[g].k]}] ELSE pend[g]]
NeedWiden == ~skip /\ \E g \in DOMAIN pend : pend[g].op \in {"get", "getx"} /\ ReadNow[pend[g].k] \notin pend[g].cand

TNext == IF NeedWiden THEN Widen ELSE Step
TSpec == TInit /\ [][TNext]_tvars

\* ------------------------------------------------------------------ invariants of every state of the real execution
\* C01/C05: whenever a reader can run (no rotation is holding the lock with a store in limbo), reads equal the reference map
TReadsLikeMap == ~skip /\ phase = "open" /\ Len(queue) <= 1 /\ ~refl => ReadNow = model
\* C05: a store in flight is the read store whenever a reader can run
TNoLimbo == ~skip /\ Len(queue) = 1 /\ phase = "open" => Head(queue) = imm
TGensAscending == \A i \in 1..(Len(tables) - 1) : tables[i].gen < tables[i + 1].gen

Report == (l = Len(Trace) + 1) => PrintT(<<"VERDICT", nok, ToJson(bad)>>)
=============================================================================
