--------------------------- MODULE DiskProtoTrace ---------------------------
(* Protocol conformance of the REAL file-system syscall sequence of a database session with the disk protocol of SimpleDBDisk.tla
   (strict, per line).  The content of the files is abstracted away; what remains is the stage of every directory and the order
   constraints that make the protocol crash safe in SimpleDBDisk.tla:

     syscall (path role)                                   SimpleDBDisk.tla action     enabling condition checked here
     mkdir sstable_G                                       FlushMk / RcFlushMk         -
     write sstable_G/meta.pb.bin (non-empty)               FlushDone / RcFlushDone     directory exists, not complete yet
     other create / write inside sstable_G                 (stutter)                   the table is not complete yet
     unlink wal/N.wal while running                        FlushUnlink                 a table was completed since the last WAL unlink
     mkdir sstable_compactionX, writes, meta               CompMk / CompDone           -
     write compaction_successful (the record)              CompFlag                    the merged table is complete (metadata written)
     unlink / rmdir inside sstable_G while running         ReflRemove                  a flagged compaction exists
     rename sstable_compactionX -> sstable_G               ReflRename / RcFinRename    X is flagged and sstable_G does not exist
     recovery: unlink wal/N.wal                            RcRmWal                     ascending N; a table created by this recovery is complete
     recovery: unlink inside an incomplete sstable_G       RcLoad (drop incomplete)    -
   A line that is not enabled is recorded with its clause; the rest of the session is still checked.                            *)
EXTENDS Integers, Sequences, FiniteSets, TLC, Json, IOUtils
Trace == ndJsonDeserialize(IOEnv.TRACE)
VARIABLES tab,        \* gen -> "dir" | "complete"
          comp,       \* name -> "dir" | "complete" | "flagfile" | "flagged"
          wals,       \* set of existing WAL numbers
          phase,      \* "recovery" | "run"
          credit,     \* tables completed while running whose WAL has not been unlinked yet
          rcNew,      \* generations created by the current recovery
          lastWalRm,  \* last WAL number unlinked by the current recovery
          l, bad, nok, cs
vars == <<tab, comp, wals, phase, credit, rcNew, lastWalRm, l, bad, nok, cs>>
Init == tab = <<>> /\ comp = <<>> /\ wals = {} /\ phase = "recovery" /\ credit = 0 /\ rcNew = {} /\ lastWalRm = -1
        /\ l = 1 /\ bad = <<>> /\ nok = 0 /\ cs = -1
Ev == Trace[l]
Flagged == {c \in DOMAIN comp : comp[c] = "flagged"}
Check ==
  CASE Ev.t = "phase" -> "ok"
    [] Ev.t = "sys" /\ Ev.kind = "table" ->
         IF Ev.op = "mkdir" THEN (IF Ev.id \in DOMAIN tab THEN "table-directory-created-twice" ELSE "ok")
         ELSE IF Ev.op \in {"create", "write", "truncate"} THEN
              (IF Ev.id \notin DOMAIN tab THEN "write-outside-a-table-directory"
               ELSE IF tab[Ev.id] = "complete" THEN "write-into-complete-table" ELSE "ok")
         ELSE IF Ev.op \in {"unlink", "rmdir"} THEN
              (IF Ev.id \notin DOMAIN tab THEN "ok"
               ELSE IF phase = "run" /\ Flagged = {} THEN "table-removed-without-flagged-compaction"
               ELSE IF phase = "recovery" /\ tab[Ev.id] = "complete" /\ Flagged = {} /\ ~Ev.afterRename THEN "recovery-removed-complete-table-without-flag"
               ELSE "ok")
         ELSE "ok"
    [] Ev.t = "sys" /\ Ev.kind = "wal" ->
         IF Ev.op = "unlink" THEN
              (IF phase = "run" THEN (IF credit <= 0 THEN "wal-unlinked-before-table-complete" ELSE "ok")
               ELSE IF Ev.id < lastWalRm THEN "recovery-wal-unlink-order"
               ELSE IF \E g \in rcNew : tab[g] # "complete" THEN "recovery-wal-unlinked-before-replayed-table-complete"
               ELSE "ok")
         ELSE "ok"
    [] Ev.t = "sys" /\ Ev.kind = "comp" ->
         IF Ev.op = "flagrecord" THEN (IF Ev.id \notin DOMAIN comp \/ comp[Ev.id] \notin {"complete", "flagfile", "flagged"} \/ ~Ev.metaDone THEN "flag-before-merged-table-complete" ELSE "ok")   \* ("flagged": a flag record of many inputs takes more than one write)
         ELSE IF Ev.op = "rename" THEN
              (IF Ev.id \notin DOMAIN comp \/ comp[Ev.id] # "flagged" THEN "rename-without-flag"
               ELSE IF Ev.target \in DOMAIN tab THEN "rename-over-existing-table" ELSE "ok")
         ELSE IF Ev.op \in {"unlink", "rmdir"} THEN
              (IF phase = "run" /\ Ev.id \in DOMAIN comp /\ comp[Ev.id] = "flagged" /\ Ev.file = "compaction_successful" THEN "flag-removed-while-running" ELSE "ok")
         ELSE "ok"
    [] OTHER -> "ok"
Effect ==
  CASE Ev.t = "phase" -> /\ phase' = Ev.phase /\ rcNew' = {} /\ lastWalRm' = -1 /\ credit' = 0 /\ UNCHANGED <<tab, comp, wals>>
    [] Ev.t = "init" ->   \* the directory image a recorded recovery starts from (abstracted by the harness: stages only)
         /\ tab' = [i \in {Ev.tables[j][1] : j \in 1..Len(Ev.tables)} |-> LET j == CHOOSE j \in 1..Len(Ev.tables) : Ev.tables[j][1] = i IN Ev.tables[j][2]]
         /\ comp' = [c \in {Ev.comps[j][1] : j \in 1..Len(Ev.comps)} |-> LET j == CHOOSE j \in 1..Len(Ev.comps) : Ev.comps[j][1] = c IN Ev.comps[j][2]]
         /\ wals' = {Ev.wals[j] : j \in 1..Len(Ev.wals)}
         /\ UNCHANGED <<phase, credit, rcNew, lastWalRm>>
    [] Ev.t = "sys" /\ Ev.kind = "table" ->
         /\ tab' = IF Ev.op = "mkdir" THEN (Ev.id :> "dir") @@ tab
                   ELSE IF Ev.op = "write" /\ Ev.file = "meta.pb.bin" /\ Ev.id \in DOMAIN tab THEN [tab EXCEPT ![Ev.id] = "complete"]
                   ELSE IF Ev.op = "rmdir" /\ Ev.file = "" THEN [g \in DOMAIN tab \ {Ev.id} |-> tab[g]]
                   ELSE tab
         /\ credit' = IF Ev.op = "write" /\ Ev.file = "meta.pb.bin" /\ phase = "run" THEN credit + 1 ELSE credit
         /\ rcNew' = IF Ev.op = "mkdir" /\ phase = "recovery" THEN rcNew \cup {Ev.id} ELSE rcNew
         /\ UNCHANGED <<comp, wals, phase, lastWalRm>>
    [] Ev.t = "sys" /\ Ev.kind = "wal" ->
         /\ wals' = IF Ev.op = "create" THEN wals \cup {Ev.id} ELSE IF Ev.op = "unlink" THEN wals \ {Ev.id} ELSE wals
         /\ credit' = IF Ev.op = "unlink" /\ phase = "run" THEN credit - 1 ELSE credit
         /\ lastWalRm' = IF Ev.op = "unlink" /\ phase = "recovery" THEN Ev.id ELSE lastWalRm
         /\ UNCHANGED <<tab, comp, phase, rcNew>>
    [] Ev.t = "sys" /\ Ev.kind = "comp" ->
         /\ comp' = IF Ev.op = "mkdir" THEN (Ev.id :> "dir") @@ comp
                    ELSE IF Ev.id \notin DOMAIN comp THEN comp
                    ELSE IF Ev.op = "write" /\ Ev.file = "meta.pb.bin" THEN [comp EXCEPT ![Ev.id] = "complete"]
                    ELSE IF Ev.op = "flagrecord" THEN [comp EXCEPT ![Ev.id] = "flagged"]
                    ELSE IF Ev.op = "rename" \/ (Ev.op = "rmdir" /\ Ev.file = "") THEN [c \in DOMAIN comp \ {Ev.id} |-> comp[c]]
                    ELSE comp
         /\ tab' = IF Ev.op = "rename" THEN (Ev.target :> "complete") @@ tab ELSE tab
         /\ UNCHANGED <<wals, phase, credit, rcNew, lastWalRm>>
    [] OTHER -> UNCHANGED <<tab, comp, wals, phase, credit, rcNew, lastWalRm>>
Step ==
  /\ l <= Len(Trace) /\ l' = l + 1
  /\ IF Ev.t = "reset" THEN /\ tab' = <<>> /\ comp' = <<>> /\ wals' = {} /\ phase' = "recovery" /\ credit' = 0 /\ rcNew' = {} /\ lastWalRm' = -1
                            /\ cs' = Ev.case /\ UNCHANGED <<bad, nok>>
     ELSE /\ UNCHANGED cs /\ Effect
          /\ LET c == Check IN IF c = "ok" THEN nok' = nok + 1 /\ UNCHANGED bad
                               ELSE bad' = Append(bad, [case |-> cs, line |-> l, clause |-> c, ev |-> ToString(Ev)]) /\ UNCHANGED nok
Spec == Init /\ [][Step]_vars
Report == (l = Len(Trace) + 1) => PrintT(<<"VERDICT", nok, ToJson(bad)>>)
=============================================================================
