---------------------------- MODULE GenSimpleDB ----------------------------
(* Behaviour generation for replay (spec -> impl): SimpleDB.tla's actions with a history variable of action labels.
   Used with -simulate; every behaviour of length MaxHist is printed as JSON.                                        *)
EXTENDS MCSimpleDB, Json
CONSTANT MaxHist
VARIABLE hist
gvars == <<vars, hist>>
L(a, c, k, v) == hist' = Append(hist, [a |-> a, c |-> c, k |-> k, v |-> v])
GInit == Init /\ hist = <<[a |-> "open", c |-> "-", k |-> 0, v |-> ToString(cfg)]>>
GNext ==
  /\ Len(hist) < MaxHist
  /\ \/ \E c \in Clients, k \in Keys : \/ \E v \in Vals : Mutate(c, k, v) /\ L("put", c, k, v)
                                       \/ Mutate(c, k, TOMB) /\ L("del", c, k, "")
                                       \/ \E v \in Vals : PutRotate(c, k, v) /\ L("putrotate", c, k, v)
                                       \/ GetStart(c, k) /\ L("get", c, k, "")
     \/ \E c \in Clients : \/ Handoff(c) /\ L("handoff", c, 0, "")
                           \/ (GetTables(c) \/ GetMem(c) \/ GetRet(c)) /\ UNCHANGED hist
     \/ FlushWrite /\ UNCHANGED hist
     \/ FlushInstall /\ L("install", "-", 0, "")
     \/ CompactSelect /\ L("compact", "-", 0, "")
     \/ (CompactMerge \/ CompactReflect) /\ UNCHANGED hist
     \/ Close /\ L("close", "-", 0, "")
     \/ Open /\ hist' = Append(hist, [a |-> "open", c |-> "-", k |-> 0, v |-> ToString(cfg')])
GSpec == GInit /\ [][GNext]_gvars
GenLeaf == Len(hist) = MaxHist => PrintT(<<"BEH", ToJson(hist)>>)
=============================================================================
