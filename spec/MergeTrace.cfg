SPECIFICATION TSpec
CONSTANTS
  Keys = {0}
  NT = 1
  WithEmpty = FALSE
INVARIANTS Report
CHECK_DEADLOCK FALSE
