------------------------------ MODULE WALTrace ------------------------------
(* Judge of recorded WAL sessions (engine "wal" under strace) and of the replay of every crash image / clean directory.
   Lines: inv/ret of Append, AppendSync, Rotate, Close; fswrite / fsync of WAL files (from the syscall log); cp (replay of an image).   *)
EXTENDS Integers, Sequences, FiniteSets, TLC, SequencesExt, Json, IOUtils
Trace == ndJsonDeserialize(IOEnv.TRACE)
VARIABLES appended, synced, pend, wrote, fsynced, closed, lastcut, l, bad, nok, cs
vars == <<appended, synced, pend, wrote, fsynced, closed, lastcut, l, bad, nok, cs>>
Init == appended = <<>> /\ synced = 0 /\ pend = "" /\ wrote = FALSE /\ fsynced = FALSE /\ closed = FALSE /\ lastcut = 0 /\ l = 1 /\ bad = <<>> /\ nok = 0 /\ cs = -1
Ev == Trace[l]
Check ==
  CASE Ev.t = "ret" ->
         \* an fsync(2) of the log file was made to fail inside this call (EIO injected by strace): the synchronous append must report it
         IF "fault" \in DOMAIN Ev /\ Ev.fault THEN (IF Ev.err = "" THEN "fsync-failure-absorbed" ELSE "ok")
         ELSE IF Ev.err # "" THEN "wal-call-failed"
         \* each synchronous append has written and fsynced its record before it returns
         ELSE IF pend = "appendsync" /\ ~(wrote /\ fsynced) THEN "appendsync-returned-without-write-and-fsync" ELSE "ok"
    [] Ev.t = "cp" ->
         IF ~Ev.ok THEN "replay-failed"
         ELSE IF ~IsPrefix(Ev.out, appended) THEN "replay-not-a-prefix-of-appended"
         ELSE IF Len(Ev.out) < synced THEN "synced-record-lost"
         ELSE IF Ev.clean /\ Ev.out # appended THEN "clean-replay-incomplete"
         ELSE "ok"
    [] Ev.t = "cut" ->
         \* the last file of the closed log cut at byte Ev.len (ascending): replay succeeds with a prefix that only grows with the file
         IF ~Ev.ok THEN "replay-failed-on-cut-last-file"
         ELSE IF ~IsPrefix(Ev.out, appended) THEN "cut-replay-not-a-prefix-of-appended"
         ELSE IF Len(Ev.out) < lastcut THEN "cut-replay-shrinks-with-longer-file"
         ELSE IF Ev.len = Ev.size /\ Ev.out # appended THEN "clean-replay-incomplete"
         ELSE "ok"
    [] OTHER -> "ok"
Step ==
  /\ l <= Len(Trace) /\ l' = l + 1
  /\ IF Ev.t = "reset" THEN appended' = <<>> /\ synced' = 0 /\ pend' = "" /\ wrote' = FALSE /\ fsynced' = FALSE /\ closed' = FALSE /\ lastcut' = 0 /\ cs' = Ev.case /\ UNCHANGED <<bad, nok>>
     ELSE /\ UNCHANGED cs
          /\ LET c == Check IN IF c = "ok" THEN nok' = nok + 1 /\ UNCHANGED bad
                               ELSE bad' = Append(bad, [case |-> cs, line |-> l, clause |-> c, ev |-> ToString(Ev)]) /\ UNCHANGED nok
          /\ lastcut' = IF Ev.t = "cut" /\ Ev.ok THEN Len(Ev.out) ELSE lastcut
          /\ CASE Ev.t = "inv" -> /\ pend' = Ev.op /\ wrote' = FALSE /\ fsynced' = FALSE
                                  /\ appended' = IF Ev.op \in {"append", "appendsync"} THEN Append(appended, Ev.rec) ELSE appended
                                  /\ UNCHANGED <<synced, closed>>
               [] Ev.t = "ret" -> /\ synced' = IF pend = "appendsync" /\ Ev.err = "" THEN Len(appended) ELSE synced
                                  /\ closed' = (closed \/ pend = "close") /\ pend' = "" /\ UNCHANGED <<appended, wrote, fsynced>>
               [] Ev.t = "fswrite" -> wrote' = TRUE /\ fsynced' = FALSE /\ UNCHANGED <<appended, synced, pend, closed>>
               [] Ev.t = "fsync" -> fsynced' = wrote /\ UNCHANGED <<appended, synced, pend, wrote, closed>>
               [] OTHER -> UNCHANGED <<appended, synced, pend, wrote, fsynced, closed>>
Spec == Init /\ [][Step]_vars
Report == (l = Len(Trace) + 1) => PrintT(<<"VERDICT", nok, ToJson(bad)>>)
=============================================================================
