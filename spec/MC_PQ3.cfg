SPECIFICATION PSpec
CONSTANTS
  Keys = {0}
  MaxLen = 0
  PKeys = {0, 1, 2, 3}
  NIn = 3
INVARIANTS CanonIsOk PEmit
CHECK_DEADLOCK FALSE
