SPECIFICATION GSpec
CONSTANTS
  Keys = {0, 1, 2}
  Vals = {"a", "b", "c"}
  Clients = {"c1"}
  MaxOps = 12
  MaxTables = 5
  MaxSessions = 3
  Cfgs <- CfgsAll
  DropTombAlways = FALSE
  BufferedHandoff = FALSE
  MaxHist = 16
INVARIANTS GenLeaf ReadsLikeMap
CHECK_DEADLOCK FALSE
