SPECIFICATION Spec
CONSTANTS
  Keys = {0, 1}
  Vals = {"EMPTY", "vA", "vB"}
  KLen <- MC_KLen
  VLen <- MC_VLen
  MaxCalls = 5
INVARIANTS EstNeverNegative EstIsSum IterationSorted FlushSubset LastWriteWins DeleteHides
PROPERTIES TombstoneStays RejectedNoEffect
VIEW View
CHECK_DEADLOCK FALSE
