------------------------------ MODULE SimpleDB ------------------------------
(* In-memory protocol of simpledb (db.go, flush.go, compaction.go, sstable_manager.go, rw_memstore.go).
   One action per critical section of the code (DESIGN §2.1):

     Put / Del              db.go PutBytes / DeleteBytes  (database write lock; WAL append + memstore update)
     PutRotate + Handoff    flush.go rotateWalAndFlushMemstore: WAL rotate + swapMemstore happen BEFORE the blocking send on the
                            unbuffered channel; the write lock is held until the flusher has taken the store, and it only takes
                            it when it is back at the receive, i.e. after it installed the previous table
     GetStart/GetTables/GetMem   db.go GetBytes: read lock; stacked table read, then memstore pair read
     FlushWrite/FlushInstall     flush.go executeFlush; sstable_manager.go addReader (manager lock only - may fall between a reader's
                            two steps)
     CompactSelect/CompactMerge/CompactReflect   compaction.go executeCompaction; sstable_manager.go candidateTablesForCompaction,
                            floodFill, reflectCompactionResult (database write lock + manager lock)
     Close / Open(cfg)      clean session boundary: everything is flushed, options may change

   `model` is the reference map (history variable).  Properties: C01 ReadsLikeMap, C05 GetLinearizable / NoLimboWhenUnlocked,
   C06 CompactPreservesReads / DeletedStaysDeleted / GapFree, C17 (API layer) RejectedIsNoOp.                                   *)
EXTENDS SimpleDBOps

CONSTANTS Vals,            \* value tokens
          Clients,
          MaxOps,          \* bound on mutations
          MaxTables,       \* bound on live tables / generations
          MaxSessions,
          Cfgs,            \* set of option records [thr, maxSize, ratio] (ratio in per-mille)
          DropTombAlways,  \* TRUE = compaction always drops tombstones (the code before the fix of S1) - negative self-test
          BufferedHandoff  \* TRUE = hand-off does not wait for the flusher (mutant design) - negative self-test

\* ------------------------------------------------------------------ state
VARIABLES mem, imm,        \* write store, read store
          pending,         \* store swapped out by a rotation but not yet handed to the flusher (lock still held)
          fstore, fpc,     \* flusher: store in work, pc in {"idle","taken","written"}
          tables, gen,
          dbLock,          \* [w |-> client or "none" or "reflect", r |-> set of clients holding the read lock]
          pc, arg, tval, res, exp,    \* per client (exp: reference value inside the lock interval)
          cpc, csel, cout,       \* compactor
          cfg, phase, nsess,
          model, nops

vars == <<mem, imm, pending, fstore, fpc, tables, gen, dbLock, pc, arg, tval, res, exp, cpc, csel, cout, cfg, phase, nsess, model, nops>>

NoStore == [k \in Keys |-> "-"]        \* "no store" marker (distinct from the empty store)
Free    == dbLock.w = "none" /\ dbLock.r = {}
WLocked == dbLock.w # "none"
ReadMap == Vis(Over(Over(Stack(tables), imm), mem))
MemGet(k) == IF mem[k] # NONE THEN mem[k] ELSE imm[k]

Init == /\ mem = Empty /\ imm = Empty /\ pending = NoStore /\ fstore = NoStore /\ fpc = "idle"
        /\ tables = <<>> /\ gen = 0
        /\ dbLock = [w |-> "none", r |-> {}]
        /\ pc = [c \in Clients |-> "idle"] /\ arg = [c \in Clients |-> [op |-> "-", k |-> 0, v |-> NONE]]
        /\ tval = [c \in Clients |-> NONE] /\ res = [c \in Clients |-> NONE] /\ exp = [c \in Clients |-> NONE]
        /\ cpc = "idle" /\ csel = <<>> /\ cout = Empty
        /\ cfg \in Cfgs /\ phase = "open" /\ nsess = 1
        /\ model = Empty /\ nops = 0

\* ------------------------------------------------------------------ clients
Mutate(c, k, v) ==   \* v = TOMB for a delete; whole critical section of PutBytes/DeleteBytes without rotation
  /\ phase = "open" /\ pc[c] = "idle" /\ Free /\ nops < MaxOps
  /\ mem' = [mem EXCEPT ![k] = v] /\ model' = [model EXCEPT ![k] = IF v = TOMB THEN NONE ELSE v]
  /\ nops' = nops + 1
  /\ UNCHANGED <<imm, pending, fstore, fpc, tables, gen, dbLock, pc, arg, tval, res, exp, cpc, csel, cout, cfg, phase, nsess>>

\* Put that exceeds the memstore limit: memstore update, WAL rotate, swap - then block on the hand-off holding the lock
PutRotate(c, k, v) ==
  /\ phase = "open" /\ pc[c] = "idle" /\ Free /\ nops < MaxOps /\ v # TOMB
  /\ model' = [model EXCEPT ![k] = v] /\ nops' = nops + 1
  /\ imm' = [mem EXCEPT ![k] = v] /\ mem' = Empty /\ pending' = [mem EXCEPT ![k] = v]
  /\ dbLock' = [dbLock EXCEPT !.w = c] /\ pc' = [pc EXCEPT ![c] = "handoff"]
  /\ UNCHANGED <<fstore, fpc, tables, gen, arg, tval, res, exp, cpc, csel, cout, cfg, phase, nsess>>

Handoff(c) ==
  /\ pc[c] = "handoff" /\ (BufferedHandoff \/ fpc = "idle")
  /\ fstore' = pending /\ pending' = NoStore /\ fpc' = "taken"
  /\ dbLock' = [dbLock EXCEPT !.w = "none"] /\ pc' = [pc EXCEPT ![c] = "idle"]
  /\ UNCHANGED <<mem, imm, tables, gen, arg, tval, res, exp, cpc, csel, cout, cfg, phase, nsess, model, nops>>

GetStart(c, k) ==
  /\ phase = "open" /\ pc[c] = "idle" /\ dbLock.w = "none"
  /\ dbLock' = [dbLock EXCEPT !.r = @ \cup {c}]
  /\ pc' = [pc EXCEPT ![c] = "getT"] /\ arg' = [arg EXCEPT ![c] = [op |-> "get", k |-> k, v |-> NONE]]
  /\ UNCHANGED <<mem, imm, pending, fstore, fpc, tables, gen, tval, res, exp, cpc, csel, cout, cfg, phase, nsess, model, nops>>
GetTables(c) ==
  /\ pc[c] = "getT"
  /\ tval' = [tval EXCEPT ![c] = Stack(tables)[arg[c].k]] /\ pc' = [pc EXCEPT ![c] = "getM"]
  /\ UNCHANGED <<mem, imm, pending, fstore, fpc, tables, gen, dbLock, arg, res, exp, cpc, csel, cout, cfg, phase, nsess, model, nops>>
GetMem(c) ==
  /\ pc[c] = "getM"
  /\ LET mv == MemGet(arg[c].k)
         r  == IF mv = NONE THEN tval[c] ELSE mv
     IN res' = [res EXCEPT ![c] = IF r = TOMB THEN NONE ELSE r]
  /\ exp' = [exp EXCEPT ![c] = model[arg[c].k]]
  /\ dbLock' = [dbLock EXCEPT !.r = @ \ {c}] /\ pc' = [pc EXCEPT ![c] = "got"]
  /\ UNCHANGED <<mem, imm, pending, fstore, fpc, tables, gen, arg, tval, cpc, csel, cout, cfg, phase, nsess, model, nops>>
GetRet(c) ==
  /\ pc[c] = "got" /\ pc' = [pc EXCEPT ![c] = "idle"]
  /\ UNCHANGED <<mem, imm, pending, fstore, fpc, tables, gen, dbLock, arg, tval, res, exp, cpc, csel, cout, cfg, phase, nsess, model, nops>>

\* ------------------------------------------------------------------ flusher
FlushWrite ==
  /\ fpc = "taken" /\ fpc' = "written"
  /\ UNCHANGED <<mem, imm, pending, fstore, tables, gen, dbLock, pc, arg, tval, res, exp, cpc, csel, cout, cfg, phase, nsess, model, nops>>
FlushInstall ==   \* addReader: manager lock only; excluded only by a reflect in progress (atomic here)
  /\ fpc = "written" /\ Len(tables) < MaxTables
  /\ gen' = gen + 1 /\ tables' = Append(tables, MkTable(gen + 1, fstore, NRec(fstore)))
  /\ fpc' = "idle" /\ fstore' = NoStore
  /\ UNCHANGED <<mem, imm, pending, dbLock, pc, arg, tval, res, exp, cpc, csel, cout, cfg, phase, nsess, model, nops>>

\* ------------------------------------------------------------------ compactor
CompactSelect ==
  /\ phase = "open" /\ cpc = "idle" /\ WillCompact(tables, cfg)
  /\ csel' = RunGens(tables, cfg) /\ cpc' = "selected"
  /\ UNCHANGED <<mem, imm, pending, fstore, fpc, tables, gen, dbLock, pc, arg, tval, res, exp, cout, cfg, phase, nsess, model, nops>>
CompactMerge ==
  /\ cpc = "selected" /\ cout' = MergedData(tables, csel, DropTombAlways) /\ cpc' = "merged"
  /\ UNCHANGED <<mem, imm, pending, fstore, fpc, tables, gen, dbLock, pc, arg, tval, res, exp, csel, cfg, phase, nsess, model, nops>>
CompactReflect ==
  /\ cpc = "merged" /\ Free
  /\ tables' = Splice(tables, csel, MkMerged(csel[1], cout, NRec(cout)))
  /\ cpc' = "idle" /\ csel' = <<>> /\ cout' = Empty
  /\ UNCHANGED <<mem, imm, pending, fstore, fpc, gen, dbLock, pc, arg, tval, res, exp, cfg, phase, nsess, model, nops>>

\* ------------------------------------------------------------------ sessions (clean close / open with new options)
Close ==
  /\ phase = "open" /\ Free /\ fpc = "idle" /\ cpc = "idle" /\ \A c \in Clients : pc[c] = "idle"
  /\ (mem = Empty \/ Len(tables) < MaxTables)
  /\ IF mem = Empty THEN UNCHANGED <<tables, gen>>
     ELSE gen' = gen + 1 /\ tables' = Append(tables, MkTable(gen + 1, mem, NRec(mem)))
  /\ mem' = Empty /\ imm' = Empty /\ phase' = "closed"
  /\ UNCHANGED <<pending, fstore, fpc, dbLock, pc, arg, tval, res, exp, cpc, csel, cout, cfg, nsess, model, nops>>
Open ==
  /\ phase = "closed" /\ nsess < MaxSessions
  /\ \E c \in Cfgs : cfg' = c
  /\ phase' = "open" /\ nsess' = nsess + 1
  /\ gen' = IF tables = <<>> THEN 0 ELSE Max({tables[i].gen : i \in 1..Len(tables)})
  /\ UNCHANGED <<mem, imm, pending, fstore, fpc, tables, dbLock, pc, arg, tval, res, exp, cpc, csel, cout, model, nops>>

Next ==
  \/ \E c \in Clients, k \in Keys : \/ \E v \in Vals \cup {TOMB} : Mutate(c, k, v)
                                   \/ \E v \in Vals : PutRotate(c, k, v)
                                   \/ GetStart(c, k)
  \/ \E c \in Clients : Handoff(c) \/ GetTables(c) \/ GetMem(c) \/ GetRet(c)
  \/ FlushWrite \/ FlushInstall
  \/ CompactSelect \/ CompactMerge \/ CompactReflect
  \/ Close \/ Open

Spec == Init /\ [][Next]_vars

\* ------------------------------------------------------------------ properties
\* C01: whenever a reader can run, the three-layer read equals the reference map
ReadsLikeMap == phase = "open" /\ ~WLocked => ReadMap = model
\* C05: a Get returns the reference value of its lock interval (no mutation can fall inside a read-locked interval)
GetLinearizable == \A c \in Clients : pc[c] = "got" => res[c] = exp[c]
\* C05: whenever a reader can run, a store in flight is the read store (or already a live table)
NoLimboWhenUnlocked == ~WLocked /\ fpc # "idle" => fstore = imm
\* C06
GapFree == cpc # "idle" => IsRun(tables, csel)
CompactPreservesReads == [][cpc = "merged" /\ cpc' = "idle" => ReadMap' = ReadMap]_vars
DeletedStaysDeleted == [][\A k \in Keys : model[k] = NONE /\ model'[k] = NONE /\ ~WLocked /\ dbLock'.w = "none" /\ phase = "open" /\ phase' = "open"
                              => (ReadMap[k] = NONE => ReadMap'[k] = NONE)]_vars
\* sessions
ClosedIsFlushed == phase = "closed" => mem = Empty /\ Vis(Stack(tables)) = model
GensAscending == \A i \in 1..(Len(tables) - 1) : tables[i].gen < tables[i + 1].gen
GenIsMax == \A i \in 1..Len(tables) : tables[i].gen <= gen

\* bounded-model view: the reference map is determined by the rest only up to history, keep it (it is small)
=============================================================================
