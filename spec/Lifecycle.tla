------------------------------ MODULE Lifecycle ------------------------------
(* Handle life cycle of simpledb.DB (db.go Open / Close and the open / closed checks of every call): which calls are accepted in which
   phase, with which documented error, and that a rejected call has no effect (C17; behaviour beyond the listed properties: ErrNotOpenedYet,
   ErrAlreadyOpen, ErrAlreadyClosed).                                                                                             *)
EXTENDS Integers, Sequences, TLC, Json
CONSTANTS MaxCalls
VARIABLES phase, val, hist
vars == <<phase, val, hist>>
\* reply of a call in a phase; a handle cannot be re-opened after Close
Reply(ph, op) ==
  CASE ph = "new"    -> IF op = "open" THEN "ok" ELSE "ErrNotOpenedYet"
    [] ph = "open"   -> IF op = "open" THEN "ErrAlreadyOpen" ELSE "ok"
    [] ph = "closed" -> IF op = "open" THEN "ErrAlreadyOpen" ELSE "ErrAlreadyClosed"
NextPhase(ph, op) == IF Reply(ph, op) # "ok" THEN ph ELSE IF op = "open" THEN "open" ELSE IF op = "close" THEN "closed" ELSE ph
Init == phase = "new" /\ val = "none" /\ hist = <<>>
Call(op) == /\ Len(hist) < MaxCalls
            /\ phase' = NextPhase(phase, op)
            /\ val' = IF Reply(phase, op) # "ok" THEN val ELSE IF op = "put" THEN "v" \o ToString(Len(hist)) ELSE IF op = "del" THEN "none" ELSE val
            /\ hist' = Append(hist, [op |-> op, r |-> IF op = "get" /\ Reply(phase, op) = "ok" THEN val ELSE Reply(phase, op)])
Next == \E op \in {"open", "close", "put", "get", "del"} : Call(op)
Spec == Init /\ [][Next]_vars
RejectedIsNoOp == [][hist'[Len(hist')].r \in {"ErrNotOpenedYet", "ErrAlreadyOpen", "ErrAlreadyClosed"} => phase' = phase /\ val' = val]_vars
ClosedStaysClosed == [][phase = "closed" => phase' = "closed"]_vars
GenLeaf == Len(hist) = MaxCalls => PrintT(<<"BEH", ToJson(hist)>>)
=============================================================================
