SPECIFICATION Spec
CONSTANTS
  Keys = {0, 1}
  Vals = {"a", "b"}
  Clients = {"c1", "c2"}
  MaxOps = 4
  MaxTables = 3
  MaxSessions = 1
  Cfgs <- CfgsOne
  DropTombAlways = FALSE
  BufferedHandoff = FALSE
INVARIANTS ReadsLikeMap GetLinearizable NoLimboWhenUnlocked GapFree ClosedIsFlushed GensAscending GenIsMax
PROPERTIES CompactPreservesReads DeletedStaysDeleted
CHECK_DEADLOCK FALSE
