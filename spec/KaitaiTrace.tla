----------------------------- MODULE KaitaiTrace -----------------------------
(* C20: the published Kaitai schema, the native reader and the stated layout of RecordIO.tla answer to one another.
   Per file: records written, what the native reader returned, the layout found by an independent walk over the framing, and what the
   Kaitai-generated reader decoded (nil flag, stored payload length, payload decoded back to a token).                               *)
EXTENDS RecordIO, IOUtils
Trace == ndJsonDeserialize(IOEnv.TRACE)
VARIABLES l, bad, nok
tvars == <<recs, size, nseek, closed, hist, l, bad, nok>>
TInit == recs = <<>> /\ size = 8 /\ nseek = 0 /\ closed = FALSE /\ hist = <<>> /\ l = 1 /\ bad = <<>> /\ nok = 0
Ev == Trace[l]
Names == {"none", "gzip", "snappy", "lzw"}
Check ==
  CASE Ev.t = "codes" ->
         \* every compression code the writer can emit is known to the schema, under the same name
         IF \E n \in Names : n \notin DOMAIN Ev.schema THEN "compression-code-unknown-to-schema"
         ELSE IF \E n \in Names : Ev.schema[n] # Ev.writer[n] THEN "compression-code-means-something-else-in-schema"
         ELSE IF \E n \in DOMAIN Ev.generated : Ev.generated[n] # Ev.writer[n] THEN "generated-reader-enum-differs-from-writer"
         \* probed: every numeric code the writer accepts (opens, writes, closes a file with) is a value of the schema's enum
         ELSE IF \E i \in 1..Len(Ev.accepted) : Ev.accepted[i] \notin {Ev.schema[n] : n \in DOMAIN Ev.schema} THEN "writer-accepts-code-unknown-to-schema"
         ELSE "ok"
    [] Ev.t = "kaitai" ->
         LET n == Len(Ev.written) IN
         IF Ev.nativeErr # "" \/ Ev.native # Ev.written THEN "native-reader-differs-from-written"
         ELSE IF Len(Ev.layout) # n THEN "layout-walk-differs"
         ELSE IF Ev.kaitaiErr # "" THEN "kaitai-parse-failed"
         ELSE IF Len(Ev.kaitai) # n THEN "kaitai-record-count"
         ELSE IF \E i \in 1..n : (Ev.kaitai[i][1] = 1) # (Ev.written[i] = "NIL") THEN "kaitai-nil-flag"
         ELSE IF \E i \in 1..n : Ev.kaitai[i][2] # StoredLen(Ev.layout[i][1] = 1, Ev.layout[i][2], Ev.layout[i][3], Ev.comp # 0) THEN "kaitai-stored-payload-length"
         ELSE IF \E i \in 1..n : Ev.kaitai[i][3] # Ev.written[i] THEN "kaitai-payload-bytes"
         ELSE IF Ev.kaitaiComp # Ev.comp THEN "kaitai-compression-code"
         ELSE "ok"
    [] OTHER -> "unknown-event"
Step == /\ l <= Len(Trace) /\ l' = l + 1 /\ UNCHANGED <<recs, size, nseek, closed, hist>>
        /\ LET c == Check IN IF c = "ok" THEN nok' = nok + 1 /\ UNCHANGED bad
                             ELSE bad' = Append(bad, [case |-> l, line |-> l, clause |-> c, ev |-> ToString(Ev)]) /\ UNCHANGED nok
TSpec == TInit /\ [][Step]_tvars
Report == (l = Len(Trace) + 1) => PrintT(<<"VERDICT", nok, ToJson(bad)>>)
=============================================================================
