SPECIFICATION Spec
CONSTANTS
  Classes = {"NIL", "EMPTY", "A", "B"}
  MaxSteps = 5
  MaxSeeks = 2
INVARIANTS OffsetsAscending OffsetsContiguous SizeIsEnd SkipIsReadDiscard SeekNextIsFirstAtOrAfter TruncationYieldsPrefix
CHECK_DEADLOCK FALSE
