SPECIFICATION Spec
CONSTANTS
  Keys = {0, 1}
  Vals = {"a", "b"}
  Clients = {"c1", "c2"}
  MaxOps = 3
  MaxTables = 3
  MaxSessions = 1
  Cfgs <- CfgsOne
  DropTombAlways = FALSE
  BufferedHandoff = FALSE
INVARIANTS LinearizedGetHoldsMapValue
PROPERTIES Refines
CHECK_DEADLOCK FALSE
