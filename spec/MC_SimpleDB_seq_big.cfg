SPECIFICATION Spec
CONSTANTS
  Keys = {0, 1}
  Vals = {"a", "b"}
  Clients = {"c1"}
  MaxOps = 4
  MaxTables = 3
  MaxSessions = 2
  Cfgs <- CfgsSmall
  DropTombAlways = FALSE
  BufferedHandoff = FALSE
INVARIANTS ReadsLikeMap GetLinearizable NoLimboWhenUnlocked GapFree ClosedIsFlushed GensAscending GenIsMax
PROPERTIES CompactPreservesReads DeletedStaysDeleted
CHECK_DEADLOCK FALSE
