-------------------------- MODULE SortedMapPQTrace --------------------------
(* Judge of real skip-list and merge-heap executions (engine "sorted"). Verdict-list mode. *)
EXTENDS SortedMapPQ, IOUtils
Trace == ndJsonDeserialize(IOEnv.TRACE)
VARIABLES ks, ins, l, bad, nok, cs
tvars == <<S, hist, ks, ins, l, bad, nok, cs>>
TInit == S = {} /\ hist = <<>> /\ ks = {} /\ ins = <<>> /\ l = 1 /\ bad = <<>> /\ nok = 0 /\ cs = -1
Ev == Trace[l]
Pairs(s) == [i \in 1..Len(s) |-> <<s[i][1], s[i][2]>>]
Check ==
  CASE Ev.t = "inserted" -> IF Ev.size # Cardinality({Ev.keys[i] : i \in 1..Len(Ev.keys)}) THEN "size" ELSE "ok"
    [] Ev.t = "contains" -> IF Ev.r # (Ev.k \in ks) THEN "contains" ELSE "ok"
    [] Ev.t = "get" -> IF Ev.found # (Ev.k \in ks) \/ (Ev.found /\ Ev.v # Ev.k * 10 + 1) THEN "get" ELSE "ok"
    [] Ev.t = "iter" -> IF Ev.err # "" \/ Ev.out # IterAll(ks) THEN "iterator" ELSE "ok"
    [] Ev.t = "iterfrom" -> IF Ev.err # "" \/ Ev.out # IterFrom(ks, Ev.k) THEN "iterator-starting-at" ELSE "ok"
    [] Ev.t = "between" -> IF Ev.lo > Ev.hi THEN (IF Ev.err = "" THEN "between-lower-above-upper-not-rejected" ELSE "ok")
                           ELSE IF Ev.err # "" \/ Ev.out # IterBetween(ks, Ev.lo, Ev.hi) THEN "iterator-between" ELSE "ok"
    [] Ev.t = "live" -> IF Ev.err # "" THEN "live-iterator-error"
                        ELSE IF ~LiveIterOk(ks, ks \cup {Ev.late[i] : i \in 1..Len(Ev.late)}, Ev.kind, Ev.lo, Ev.hi, Ev.out) THEN "iterator-open-during-inserts" ELSE "ok"
    [] Ev.t = "pq" -> IF Ev.err # "" THEN "pq-error" ELSE IF ~MergeOk(Ev.inputs, Pairs(Ev.out)) THEN "pq-merge" ELSE "ok"
    [] OTHER -> "unknown-event"
Step ==
  /\ l <= Len(Trace) /\ l' = l + 1 /\ UNCHANGED <<S, hist, ins>>
  /\ IF Ev.t = "reset" THEN ks' = {} /\ cs' = Ev.case /\ UNCHANGED <<bad, nok>>
     ELSE LET c == Check IN
          /\ UNCHANGED cs
          /\ ks' = IF Ev.t = "inserted" THEN {Ev.keys[i] : i \in 1..Len(Ev.keys)} ELSE ks
          /\ IF c = "ok" THEN nok' = nok + 1 /\ UNCHANGED bad
             ELSE bad' = Append(bad, [case |-> cs, line |-> l, clause |-> c, ev |-> ToString(Ev)]) /\ UNCHANGED nok
TSpec == TInit /\ [][Step]_tvars
Report == (l = Len(Trace) + 1) => PrintT(<<"VERDICT", nok, ToJson(bad)>>)
=============================================================================
