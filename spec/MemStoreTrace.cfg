SPECIFICATION TSpec
CONSTANTS
  Keys = {0}
  Vals = {"EMPTY"}
  KLen <- MC_KLen
  VLen <- MC_VLen
  MaxCalls = 0
INVARIANTS TEstNeverNegative TEstIsSum Report
CHECK_DEADLOCK FALSE
