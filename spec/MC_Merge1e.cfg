SPECIFICATION Spec
CONSTANTS
  Keys = {0, 1, 2}
  NT = 1
  WithEmpty = TRUE
INVARIANTS EachKeyOnceAscending NewestWins NoForeignValue ScanIsGetOfLive CompactIsScan NestedOldestIsFlat Emit
CHECK_DEADLOCK FALSE
