SPECIFICATION Spec
CONSTANTS
  Kind = "fr"
  MaxCalls = 5
INVARIANTS GenLeaf
PROPERTIES RefusedIsNoOp ClosedStaysClosed
CHECK_DEADLOCK FALSE
