----------------------------- MODULE SimpleDBOps -----------------------------
(* Pure table / memstore algebra shared by SimpleDB.tla (state machine, exhaustive checks), SimpleDBTrace.tla (white-box
   trace validation of real executions) and SimpleDBDisk.tla (crash protocol).                                            *)
EXTENDS Integers, Sequences, FiniteSets, TLC, SequencesExt, FiniteSetsExt
CONSTANTS Keys
NONE == "none"
TOMB == "tomb"
Empty == [k \in Keys |-> NONE]

\* ------------------------------------------------------------------ table algebra (shared with the trace modules)
Over(lo, hi)   == [k \in DOMAIN lo |-> IF hi[k] # NONE THEN hi[k] ELSE lo[k]]
Vis(m)         == [k \in DOMAIN m |-> IF m[k] = TOMB THEN NONE ELSE m[k]]
RECURSIVE StackE(_, _)
StackE(ts, e)  == IF ts = <<>> THEN e ELSE Over(StackE(SubSeq(ts, 1, Len(ts) - 1), e), ts[Len(ts)].data)
Stack(ts)      == StackE(ts, Empty)
NRec(d)        == Cardinality({k \in DOMAIN d : d[k] # NONE})
NTomb(d)       == Cardinality({k \in DOMAIN d : d[k] = TOMB})
DropTombs(d)   == [k \in DOMAIN d |-> IF d[k] = TOMB THEN NONE ELSE d[k]]
GensOf(ts)     == [i \in 1..Len(ts) |-> ts[i].gen]
IdxOfGen(ts, g) == CHOOSE i \in 1..Len(ts) : ts[i].gen = g

\* candidate selection of sstable_manager.go: size below the limit OR tombstone ratio reached; then floodFill
Selected(t, cfg) == t.bytes < cfg.maxSize \/ (t.nrec > 0 /\ t.ntomb * 1000 >= cfg.ratio * t.nrec)
SelIdx(ts, cfg)  == {i \in 1..Len(ts) : Selected(ts[i], cfg)}


\* floodFill: everything between the first and the last selected table
RunIdx(ts, cfg)  == LET s == SelIdx(ts, cfg) IN IF s = {} THEN {} ELSE Min(s)..Max(s)
RunGens(ts, cfg) == LET r == RunIdx(ts, cfg) IN IF r = {} THEN <<>> ELSE [i \in 1..(Max(r) - Min(r) + 1) |-> ts[Min(r) + i - 1].gen]
WillCompact(ts, cfg) == Len(RunGens(ts, cfg)) > cfg.thr
IsRun(ts, gens)  == \E i, j \in 1..Len(ts) : i <= j /\ gens = GensOf(SubSeq(ts, i, j))      \* gap-free, in age order

\* merge of a run (oldest first): latest wins; tombstones may only be dropped when no older table remains
MergedData(ts, gens, dropAlways) ==
  LET run == SelectSeq(ts, LAMBDA t : \E i \in 1..Len(gens) : gens[i] = t.gen)
      m   == Stack(run)
  IN IF dropAlways \/ (ts # <<>> /\ gens # <<>> /\ ts[1].gen = gens[1]) THEN DropTombs(m) ELSE m
\* reflect: merged table takes the slot (and name) of the oldest input; the other inputs vanish
Splice(ts, gens, newt) ==
  LET keep == SelectSeq(ts, LAMBDA t : t.gen = gens[1] \/ ~(\E i \in 1..Len(gens) : gens[i] = t.gen))
  IN [i \in 1..Len(keep) |-> IF keep[i].gen = gens[1] THEN newt ELSE keep[i]]
MkTable(g, d, b) == [gen |-> g, data |-> d, nrec |-> NRec(d), ntomb |-> NTomb(d), bytes |-> b]
\* a compaction stores the tombstones it has to keep as empty (non-nil) values, which the table metadata does not count as null
\* values: nrec/ntomb model the METADATA (NumRecords / NullValues) the selection rule reads, data models the content
MkMerged(g, d, b) == [gen |-> g, data |-> d, nrec |-> NRec(d), ntomb |-> 0, bytes |-> b]

=============================================================================
