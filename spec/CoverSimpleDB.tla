--------------------------- MODULE CoverSimpleDB ---------------------------
(* Transition cover of SimpleDB.tla for replay (spec -> impl): breadth-first exhaustive exploration of GenSimpleDB.tla's labelled actions with the
   history hidden from the fingerprint (VIEW), so that every state carries ONE shortest labelled path to it; the first time a step with a new
   ABSTRACT signature <<abstraction of the state, label of the step, abstraction of the successor>> is taken, the path to the successor is printed.
   The printed paths cover every abstract transition of the bounded model; the harness replays each of them on the real database.
   Needs -workers 1 (the set of signatures seen so far lives in a TLC register).                                                            *)
EXTENDS GenSimpleDB
Abs == <<phase, Len(tables), fpc, cpc, mem # Empty, imm # Empty, cfg, pc, pending # NoStore,
         \* which layer answers for each key: write store / read store / a table / nothing
         [k \in Keys |-> IF mem[k] # NONE THEN "w" ELSE IF imm[k] # NONE THEN "r" ELSE IF Stack(tables)[k] # NONE THEN "t" ELSE "-"]>>
Label == IF Len(hist') > Len(hist) THEN hist'[Len(hist')].a ELSE "silent"
CInit == GInit /\ TLCSet(1, {})
CSpec == CInit /\ [][GNext]_gvars
Cover == LET t == <<Abs, Label, Abs'>> IN
         IF t \in TLCGet(1) THEN TRUE ELSE PrintT(<<"COV", ToJson(hist')>>) /\ TLCSet(1, TLCGet(1) \cup {t})
CView == vars
=============================================================================
