------------------------------- MODULE KVStore -------------------------------
(* The abstract object every SimpleDB property refers to: an atomic map with invocation / linearization / response steps per
   client (C01, C05, C17) and a crash that keeps every linearized operation and each in-flight one either applied or not (C02). *)
EXTENDS Naturals, Sequences, FiniteSets, TLC
CONSTANTS Keys, Vals, Clients, MaxOps
NONE == "none"
VARIABLES map, pc, arg, res, nops
vars == <<map, pc, arg, res, nops>>
Init == map = [k \in Keys |-> NONE] /\ pc = [c \in Clients |-> "idle"] /\ arg = [c \in Clients |-> [op |-> "-", k |-> 0, v |-> NONE]]
        /\ res = [c \in Clients |-> NONE] /\ nops = 0
Invoke(c, op, k, v) == /\ pc[c] = "idle" /\ nops < MaxOps /\ nops' = nops + 1
                       /\ pc' = [pc EXCEPT ![c] = "invoked"] /\ arg' = [arg EXCEPT ![c] = [op |-> op, k |-> k, v |-> v]]
                       /\ UNCHANGED <<map, res>>
Lin(c) == /\ pc[c] = "invoked"
          /\ map' = CASE arg[c].op = "put" -> [map EXCEPT ![arg[c].k] = arg[c].v]
                      [] arg[c].op = "del" -> [map EXCEPT ![arg[c].k] = NONE]
                      [] OTHER -> map
          /\ res' = [res EXCEPT ![c] = IF arg[c].op = "get" THEN map[arg[c].k] ELSE "ok"]
          /\ pc' = [pc EXCEPT ![c] = "linearized"] /\ UNCHANGED <<arg, nops>>
Return(c) == pc[c] = "linearized" /\ pc' = [pc EXCEPT ![c] = "idle"] /\ UNCHANGED <<map, arg, res, nops>>
\* kill -9: linearized operations stay, every in-flight one is either applied or not, all calls vanish
Crash == /\ \E S \in SUBSET {c \in Clients : pc[c] = "invoked" /\ arg[c].op # "get"} :
              \E order \in {s \in [1..Cardinality(S) -> S] : \A i, j \in 1..Cardinality(S) : i # j => s[i] # s[j]} :
                 map' = LET RECURSIVE ap(_, _)
                            ap(mm, i) == IF i > Cardinality(S) THEN mm
                                         ELSE ap([mm EXCEPT ![arg[order[i]].k] = IF arg[order[i]].op = "put" THEN arg[order[i]].v ELSE NONE], i + 1)
                        IN ap(map, 1)
         /\ pc' = [c \in Clients |-> "idle"] /\ UNCHANGED <<arg, res, nops>>
Next == \/ \E c \in Clients : Lin(c) \/ Return(c) \/ \E k \in Keys : \/ Invoke(c, "get", k, NONE) \/ Invoke(c, "del", k, NONE)
                                                                      \/ \E v \in Vals : Invoke(c, "put", k, v)
        \/ Crash
Spec == Init /\ [][Next]_vars
\* sanity properties of the abstract object
ReadYourWrite == \A c \in Clients : pc[c] = "linearized" /\ arg[c].op = "put" => map[arg[c].k] \in Vals
TypeOK == map \in [Keys -> Vals \cup {NONE}]
=============================================================================
