------------------------------ MODULE RecordIO ------------------------------
(* recordio: a file is the sequence of records that SURVIVE the writer program (C04); what cut or header-damaged files may yield (C12);
   the stored layout the Kaitai schema has to agree with (C20).
   Writer (file_writer.go): Write / WriteSync append a record and return its start offset (= Size() before the call); Seek(j) moves
   back to the start of record j+1 (a record boundary) - the records behind it do not survive; Close truncates to the logical end.
   Readers: sequential ReadNext / SkipNext (file_reader.go), random access ReadNextAt / SeekNext (mmap_reader.go).               *)
EXTENDS Integers, Sequences, FiniteSets, TLC, SequencesExt, Json

\* ------------------------------------------------------------------ pure semantics (shared with RecordIOTrace)
\* recs: sequence of [tok, off]; size: logical end of the file
SeekTarget(recs, size, j) == IF j >= Len(recs) THEN size ELSE recs[j + 1].off
AfterSeek(recs, j)  == IF j >= Len(recs) THEN recs ELSE SubSeq(recs, 1, j)
Toks(recs)          == [i \in 1..Len(recs) |-> recs[i].tok]
EndOf(recs, size, i) == IF i = Len(recs) THEN size ELSE recs[i + 1].off
\* sequential reader following a read(1)/skip(0) program cycled over the records: what it yields before the end
SeqExpected(recs, prog) == [i \in 1..Len(recs) |-> IF prog = <<>> \/ prog[((i - 1) % Len(prog)) + 1] = 1 THEN recs[i].tok ELSE "skipped"]
AtOffset(recs, off) == LET S == {i \in 1..Len(recs) : recs[i].off = off} IN IF S = {} THEN "none" ELSE recs[CHOOSE i \in S : TRUE].tok
\* SeekNext(from): the first record that starts at or after `from`
NextFrom(recs, from) == LET S == {i \in 1..Len(recs) : recs[i].off >= from} IN
                        IF S = {} THEN [off |-> 0, tok |-> "EOF"] ELSE LET i == CHOOSE x \in S : \A y \in S : x <= y IN [off |-> recs[i].off, tok |-> recs[i].tok]
\* C12: records completely contained in the first n bytes
Complete(recs, size, n) == SelectSeq([i \in 1..Len(recs) |-> [tok |-> recs[i].tok, end |-> EndOf(recs, size, i)]], LAMBDA r : r.end <= n)
CompleteToks(recs, size, n) == LET c == Complete(recs, size, n) IN [i \in 1..Len(c) |-> c[i].tok]
IsPrefixOf(s, t) == Len(s) <= Len(t) /\ \A i \in 1..Len(s) : s[i] = t[i]
\* C20: stored layout of a record: nil flag, stored payload length (0 for nil; compressed length when the file is compressed)
StoredLen(isNil, ulen, clen, compressed) == IF isNil THEN 0 ELSE IF compressed THEN clen ELSE ulen

\* ------------------------------------------------------------------ small-scope state machine: writer programs
CONSTANTS Classes, MaxSteps, MaxSeeks
VARIABLES recs, size, nseek, closed, hist
vars == <<recs, size, nseek, closed, hist>>
\* abstract stored length of a record class (header + payload); only the ordering of offsets matters here
Len0(c) == CASE c = "NIL" -> 7 [] c = "EMPTY" -> 7 [] c = "A" -> 12 [] OTHER -> 40
Init == recs = <<>> /\ size = 8 /\ nseek = 0 /\ closed = FALSE /\ hist = <<>>
DoWrite(c, sync) == /\ ~closed /\ Len(hist) < MaxSteps
                    /\ recs' = Append(recs, [tok |-> c, off |-> size]) /\ size' = size + Len0(c)
                    /\ hist' = Append(hist, [op |-> IF sync THEN "writesync" ELSE "write", rec |-> c, j |-> 0]) /\ UNCHANGED <<nseek, closed>>
DoSeek(j) == /\ ~closed /\ Len(hist) < MaxSteps /\ nseek < MaxSeeks /\ j \in 0..Len(recs)
             /\ size' = SeekTarget(recs, size, j) /\ recs' = AfterSeek(recs, j) /\ nseek' = nseek + 1
             /\ hist' = Append(hist, [op |-> "seek", rec |-> "", j |-> j]) /\ UNCHANGED closed
DoClose == /\ ~closed /\ closed' = TRUE /\ hist' = Append(hist, [op |-> "close", rec |-> "", j |-> 0]) /\ UNCHANGED <<recs, size, nseek>>
Next == \/ \E c \in Classes, s \in BOOLEAN : DoWrite(c, s)
        \/ \E j \in 0..3 : DoSeek(j)
        \/ DoClose
Spec == Init /\ [][Next]_vars
\* C04 as statements about the abstract file
OffsetsAscending == \A i \in 1..(Len(recs) - 1) : recs[i].off < recs[i + 1].off
OffsetsContiguous == (recs # <<>> => recs[1].off = 8) /\ \A i \in 1..Len(recs) : EndOf(recs, size, i) = recs[i].off + Len0(recs[i].tok)
SizeIsEnd == size = 8 + LET RECURSIVE sum(_)
                            sum(i) == IF i = 0 THEN 0 ELSE Len0(recs[i].tok) + sum(i - 1) IN sum(Len(recs))
SkipIsReadDiscard == \A i \in 1..Len(recs) : SeqExpected(recs, <<0>>)[i] = "skipped" /\ SeqExpected(recs, <<1>>)[i] = recs[i].tok
SeekNextIsFirstAtOrAfter == \A o \in 0..size : LET r == NextFrom(recs, o) IN
                               r.tok = "EOF" \/ (r.off >= o /\ \A i \in 1..Len(recs) : recs[i].off >= o => recs[i].off >= r.off)
TruncationYieldsPrefix == \A n \in 0..size : IsPrefixOf(CompleteToks(recs, size, n), Toks(recs))
GenLeaf == closed => PrintT(<<"BEH", ToJson(hist)>>)
=============================================================================
