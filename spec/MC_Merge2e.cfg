SPECIFICATION Spec
CONSTANTS
  Keys = {0, 1}
  NT = 2
  WithEmpty = TRUE
INVARIANTS EachKeyOnceAscending NewestWins NoForeignValue ScanIsGetOfLive CompactIsScan NestedOldestIsFlat Emit
CHECK_DEADLOCK FALSE
