--------------------------- MODULE DiskImageTrace ---------------------------
(* Binds the content level of SimpleDBDisk.tla to the real recovery.  Every crash image of a recorded session (C02, C13) and every
   image of a kill inside recovery (C10) is mapped by the harness' abstraction function (vdrv dbdecode: WAL files -> operation
   sequences, table directories -> stage + map, compaction directory -> stage + inputs + merged map) to the disk variables of
   SimpleDBDisk.tla BEFORE the real Open runs on it.  TLC evaluates the specification's OpenFails and RecMap on that state and
   compares with what the real Open + Get of every key produced on the same image:
     open-failed-where-spec-recovers / open-succeeded-where-spec-says-it-fails / recovered-map-differs-from-spec-RecMap.
   So "what recovery reconstructs from the disk alone" is not only a checked design, it is the function the code is held to.      *)
EXTENDS SimpleDBDisk, Json, IOUtils
Trace == ndJsonDeserialize(IOEnv.TRACE)
VARIABLES l, bad, nok, loaded
tvars == <<vars, l, bad, nok, loaded>>
Ev == Trace[l]
MapOf(lst) == [k \in Keys |-> lst[k + 1]]          \* Keys = 0 .. n-1, JSON lists start at 1
Idx(s, P(_)) == CHOOSE i \in 1..Len(s) : P(s[i])
ImgWals(e) == [n \in {e.wals[i].n : i \in 1..Len(e.wals)} |->
                 LET w == e.wals[Idx(e.wals, LAMBDA x : x.n = n)] IN [j \in 1..Len(w.ops) |-> [k |-> w.ops[j].k, v |-> w.ops[j].v]]]
ImgTables(e) == [g \in {e.tables[i].g : i \in 1..Len(e.tables)} |->
                   LET t == e.tables[Idx(e.tables, LAMBDA x : x.g = g)] IN [ok |-> t.ok, broken |-> t.broken, data |-> MapOf(t.data)]]
ImgComp(e) == [st |-> e.comp.st, inputs |-> [i \in 1..Len(e.comp.inputs) |-> e.comp.inputs[i]], data |-> MapOf(e.comp.data)]
Decodable(e) == Len(e.unknown) = 0 /\ e.comp.st \in {"none", "partial", "complete", "flagged"}
                /\ (e.comp.st = "flagged" => Len(e.comp.inputs) > 0 /\ \A i \in 1..Len(e.comp.inputs) : e.comp.inputs[i] >= 0)
TInit == Init /\ l = 1 /\ bad = <<>> /\ nok = 0 /\ loaded = FALSE
Rest == <<cur, mem, imm, immWal, tables, gen, fpc, cpc, csel, mode, rpc, rmem, model, nops, inflight, ncrash, wbuf, applied, base, rotn>>
Clause(rm) == IF OpenFails THEN (IF Ev.ok THEN "open-succeeded-where-spec-says-it-fails" ELSE "ok")
              ELSE IF ~Ev.ok THEN "open-failed-where-spec-recovers"
              ELSE IF \E k \in Keys : rm[k] # Ev.m[k + 1] THEN "recovered-map-differs-from-spec-RecMap"
              ELSE "ok"
\* two steps per line: the decoded image becomes the disk state, then the specification's OpenFails / RecMap are evaluated on it
Load == /\ ~loaded /\ l <= Len(Trace) /\ Decodable(Ev)
        /\ wals' = ImgWals(Ev) /\ tdirs' = ImgTables(Ev) /\ cdir' = ImgComp(Ev) /\ loaded' = TRUE
        /\ UNCHANGED <<Rest, l, bad, nok>>
Judge == /\ loaded /\ loaded' = FALSE /\ l' = l + 1 /\ UNCHANGED vars
         /\ LET rm == IF OpenFails THEN Empty ELSE RecMap
                c == Clause(rm) IN
            IF c = "ok" THEN nok' = nok + 1 /\ UNCHANGED bad
            ELSE bad' = Append(bad, [case |-> Ev.case, line |-> l, idx |-> Ev.idx, desc |-> Ev.desc, clause |-> c, m |-> Ev.m,
                                     spec |-> IF OpenFails THEN <<"open fails">> ELSE [k \in 1..Cardinality(Keys) |-> rm[k - 1]],
                                     err |-> Ev.err]) /\ UNCHANGED nok
Undecodable == /\ ~loaded /\ l <= Len(Trace) /\ ~Decodable(Ev) /\ l' = l + 1 /\ UNCHANGED <<vars, nok, loaded>>
               /\ bad' = Append(bad, [case |-> Ev.case, line |-> l, idx |-> Ev.idx, desc |-> Ev.desc, clause |-> "image-not-decodable",
                                      m |-> Ev.m, spec |-> <<>>, err |-> ToString(Ev.unknown)])
Step == Load \/ Judge \/ Undecodable
TSpec == TInit /\ [][Step]_tvars
Report == (l = Len(Trace) + 1) => PrintT(<<"VERDICT", nok, ToJson(bad)>>)
=============================================================================
