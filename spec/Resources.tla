------------------------------ MODULE Resources ------------------------------
(* C19: descriptors, mappings and goroutines of simpledb (db.go Open/Close, flush.go, compaction.go, sstable_manager.go) and of the
   table / RecordIO readers.  handles: one WAL descriptor while open, one data-file mapping per live table; a flush adds one,
   a compaction of k tables closes k and opens one, Close releases everything and joins the flusher and the compactor.
   Library objects: a reader owns its mapping and every scanner created from it until Close.                                  *)
EXTENDS Integers, Sequences, FiniteSets, TLC
CONSTANTS MaxTables, MaxCycles, K
VARIABLES phase, tables, handles, threads, cycles
vars == <<phase, tables, handles, threads, cycles>>
Init == phase = "closed" /\ tables = 0 /\ handles = 0 /\ threads = 0 /\ cycles = 0
Open(bg) == /\ phase = "closed" /\ phase' = "open" /\ handles' = tables + 1 /\ threads' = (IF bg THEN 2 ELSE 1) /\ UNCHANGED <<tables, cycles>>
Flush == /\ phase = "open" /\ tables < MaxTables /\ cycles < MaxCycles
         /\ tables' = tables + 1 /\ handles' = handles + 1 /\ cycles' = cycles + 1 /\ UNCHANGED <<phase, threads>>
Compact(n) == /\ phase = "open" /\ n \in 1..tables /\ cycles < MaxCycles
              /\ tables' = tables - n + 1 /\ handles' = handles - n + 1 /\ cycles' = cycles + 1 /\ UNCHANGED <<phase, threads>>
Close == /\ phase = "open" /\ phase' = "closed" /\ handles' = 0 /\ threads' = 0 /\ UNCHANGED <<tables, cycles>>
Next == \E b \in BOOLEAN : Open(b) \/ Flush \/ (\E n \in 1..MaxTables : Compact(n)) \/ Close
Spec == Init /\ [][Next]_vars
HandlesBounded == phase = "open" => handles <= tables + K
ClosedReleasesAll == phase = "closed" => handles = 0 /\ threads = 0
NoGrowthWithCycles == handles <= MaxTables + K
\* judged on observations of the real process (shared with ResTrace)
ObsOk(open, ntables, fds, maps, gor, k) == IF open THEN fds + maps <= ntables + k /\ gor <= 2 ELSE fds = 0 /\ maps = 0 /\ gor = 0
=============================================================================
