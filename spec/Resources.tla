------------------------------ MODULE Resources ------------------------------
(* C19: descriptors, mappings and goroutines of simpledb (db.go Open/Close, flush.go, compaction.go, sstable_manager.go) and of the
   table / RecordIO readers.  Handles: one WAL descriptor while open, one data-file mapping per live table; a flush adds one,
   a compaction of n tables closes n and opens one.  Close is NOT atomic (db.go Close): under the database lock it flushes the last
   memstore and joins the flusher (CloseLock, CloseFlusherJoined); then, outside the lock, it stops and joins the compactor (CloseJoin) - a compaction
   that is between merge and reflect at that moment still reflects, i.e. closes its inputs and opens the merged table - and only then
   releases the WAL and whatever tables are live by now (CloseRelease).  ReleaseBeforeJoin = TRUE is the defective order (release
   inside the locked section): the table a late reflect opens is released by nobody.
   Library objects: a reader owns its mapping and every scanner created from it until Close.                                  *)
EXTENDS Integers, Sequences, FiniteSets, TLC
CONSTANTS
  \* @type: Int;
  MaxTables,
  \* @type: Int;
  MaxCycles,
  \* @type: Int;
  K,
  \* @type: Bool;
  ReleaseBeforeJoin
VARIABLES
  \* @type: Str;
  phase,     \* "closed" | "open" | "locking" (Close holds the lock) | "closing" (flusher joined, compactor not yet) | "joined"
  \* @type: Int;
  tables,    \* table directories on disk
  \* @type: Int;
  tableH,    \* open table readers (one mapping each)
  \* @type: Int;
  walH,      \* WAL descriptor
  \* @type: Bool;
  flusher,   \* flusher goroutine alive
  \* @type: Str;
  compactor, \* "none" | "idle" | "merging"  (background compactor goroutine)
  \* @type: Int;
  csel,      \* number of tables the running compaction merges
  \* @type: Bool;
  released,  \* Close already released the handles
  \* @type: Int;
  cycles
vars == <<phase, tables, tableH, walH, flusher, compactor, csel, released, cycles>>
handles == tableH + walH
threads == (IF flusher THEN 1 ELSE 0) + (IF compactor # "none" THEN 1 ELSE 0)
Init == /\ phase = "closed" /\ tables = 0 /\ tableH = 0 /\ walH = 0 /\ flusher = FALSE /\ compactor = "none" /\ csel = 0
        /\ released = FALSE /\ cycles = 0
Open(bg) == /\ phase = "closed" /\ phase' = "open" /\ tableH' = tables /\ walH' = 1 /\ flusher' = TRUE
            /\ compactor' = (IF bg THEN "idle" ELSE "none") /\ released' = FALSE /\ UNCHANGED <<tables, csel, cycles>>
Flush == /\ phase \in {"open", "locking"} /\ flusher /\ tables < MaxTables /\ cycles < MaxCycles
         /\ tables' = tables + 1 /\ tableH' = tableH + 1 /\ cycles' = cycles + 1
         /\ UNCHANGED <<phase, walH, flusher, compactor, csel, released>>
\* background compactor: select + merge (no handle of the database changes), then reflect under the database lock
CompStart(n) == /\ compactor = "idle" /\ phase \in {"open", "locking", "closing"} /\ n \in 2..tables /\ cycles < MaxCycles
                /\ compactor' = "merging" /\ csel' = n /\ cycles' = cycles + 1
                /\ UNCHANGED <<phase, tables, tableH, walH, flusher, released>>
\* (not while Close holds the lock)
CompReflect == /\ compactor = "merging" /\ phase \in {"open", "closing"}
               /\ tables' = tables - csel + 1
               /\ tableH' = (IF released THEN tableH + 1 ELSE tableH - csel + 1)   \* closing a closed reader releases nothing
               /\ compactor' = "idle" /\ csel' = 0
               /\ UNCHANGED <<phase, walH, flusher, released, cycles>>
\* manual compaction cycle (no compactor goroutine)
Compact(n) == /\ phase = "open" /\ compactor = "none" /\ n \in 2..tables /\ cycles < MaxCycles
              /\ tables' = tables - n + 1 /\ tableH' = tableH - n + 1 /\ cycles' = cycles + 1
              /\ UNCHANGED <<phase, walH, flusher, compactor, csel, released>>
\* Close, step 1: take the database lock and set the closed flag; the last memstore is handed to the flusher (Flush stays enabled)
CloseLock == /\ phase = "open" /\ phase' = "locking"
             /\ UNCHANGED <<tables, tableH, walH, flusher, compactor, csel, released, cycles>>
\* Close, step 2: flusher joined, lock released
CloseFlusherJoined ==
    /\ phase = "locking" /\ phase' = "closing" /\ flusher' = FALSE
    /\ IF ReleaseBeforeJoin THEN tableH' = 0 /\ walH' = 0 /\ released' = TRUE ELSE UNCHANGED <<tableH, walH, released>>
    /\ UNCHANGED <<tables, compactor, csel, cycles>>
\* the compactor loop looks at its stop channel only between two cycles
CloseJoin == /\ phase = "closing" /\ compactor \in {"none", "idle"} /\ compactor' = "none" /\ phase' = "joined"
             /\ UNCHANGED <<tables, tableH, walH, flusher, csel, released, cycles>>
CloseRelease == /\ phase = "joined" /\ phase' = "closed"
                /\ IF released THEN UNCHANGED <<tableH, walH, released>> ELSE tableH' = 0 /\ walH' = 0 /\ released' = TRUE
                /\ UNCHANGED <<tables, flusher, compactor, csel, cycles>>
Next == \/ \E b \in BOOLEAN : Open(b)
        \/ Flush \/ CompReflect \/ CloseLock \/ CloseFlusherJoined \/ CloseJoin \/ CloseRelease
        \/ \E n \in 2..MaxTables : CompStart(n) \/ Compact(n)
Spec == Init /\ [][Next]_vars
\* Close terminates: once Close has taken the lock, the handle gets closed - provided the flusher, the compactor's reflect and the steps of Close itself
\* are not starved (weak fairness suffices in the bounded model: the compactor can start only MaxCycles cycles)
FairSpec == Spec /\ WF_vars(CloseFlusherJoined) /\ WF_vars(CloseJoin) /\ WF_vars(CloseRelease) /\ WF_vars(CompReflect)
CloseTerminates == (phase = "locking") ~> (phase = "closed")
HandlesBounded == phase \in {"open", "locking"} => handles <= tables + K
ClosedReleasesAll == phase = "closed" => handles = 0 /\ threads = 0
NoGrowthWithCycles == handles <= MaxTables + K
\* Close always terminates: from every closing state the closed state is reachable without client steps (checked as absence of
\* a stuck state: "closing" with a compactor that can neither reflect nor be joined does not exist)
CloseCanProceed == phase = "closing" => (ENABLED CloseJoin \/ ENABLED CompReflect)
\* judged on observations of the real process (shared with ResTrace)
ObsOk(open, ntables, fds, maps, gor, k) == IF open THEN fds + maps <= ntables + k /\ gor <= 2 ELSE fds = 0 /\ maps = 0 /\ gor = 0
=============================================================================
