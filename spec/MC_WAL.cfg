SPECIFICATION Spec
CONSTANTS
  MaxRecs = 5
  MaxFiles = 4
  MaxPerFile = 2
INVARIANTS ReplayIsPrefix SyncedSurvive CleanReplayIsAll
CHECK_DEADLOCK FALSE
