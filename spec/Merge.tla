------------------------------- MODULE Merge -------------------------------
(* C08 / C11: merging or stacking tables = latest-wins union (sstable_merger.go, super_sstable_reader.go, pq).
   A table is a function rank -> "ABSENT" | "TOMB" (nil value) | "EMPTY" | value token; a list is ordered oldest -> newest.   *)
EXTENDS Integers, Sequences, FiniteSets, TLC, SequencesExt, Json
ABSENT == "ABSENT"
TOMB   == "NIL"
\* ------------------------------------------------------------------ pure semantics (shared with MergeTrace)
RECURSIVE LatestOf(_, _, _)
LatestOf(ts, k, i) == IF i = 0 THEN ABSENT ELSE IF ts[i][k] # ABSENT THEN ts[i][k] ELSE LatestOf(ts, k, i - 1)
Latest(ts, k)  == LatestOf(ts, k, Len(ts))
KeysIn(ts, K)  == {k \in K : Latest(ts, k) # ABSENT}
SortedSeq(S)   == SetToSortSeq(S, LAMBDA a, b : a < b)
\* stacked reader
SuperGet(ts, k)      == IF Latest(ts, k) = ABSENT THEN "NotFound" ELSE Latest(ts, k)
SuperContains(ts, k) == Latest(ts, k) # ABSENT
\* scans and the compacting merge omit keys whose newest value is a tombstone
Live(ts, K)          == SortedSeq({k \in K : Latest(ts, k) \notin {ABSENT, TOMB}})
ScanOf(ts, K)        == LET ks == Live(ts, K) IN [i \in 1..Len(ks) |-> <<ks[i], Latest(ts, ks[i])>>]
ScanFromOf(ts, K, p) == SelectSeq(ScanOf(ts, K), LAMBDA e : e[1] >= p)
ScanRangeOf(ts, K, lo, hi) == SelectSeq(ScanOf(ts, K), LAMBDA e : e[1] >= lo /\ e[1] <= hi)
\* MergeCompact: "latest" keeps empty values, "skiptomb" drops every zero-length value
CompactOf(ts, K, reduce) == IF reduce = "skiptomb" THEN SelectSeq(ScanOf(ts, K), LAMBDA e : e[2] # "EMPTY") ELSE ScanOf(ts, K)
\* plain Merge of disjoint inputs: every entry, ascending (nil values included)
Disjoint(ts, K) == \A k \in K : Cardinality({i \in 1..Len(ts) : ts[i][k] # ABSENT}) <= 1
PlainOf(ts, K)  == LET ks == SortedSeq(KeysIn(ts, K)) IN [i \in 1..Len(ks) |-> <<ks[i], Latest(ts, ks[i])>>]

\* ------------------------------------------------------------------ exhaustive enumeration of lists
CONSTANTS Keys, NT, WithEmpty
VARIABLES tabs, done
vars == <<tabs, done>>
Cell(i) == {ABSENT, TOMB, "v" \o ToString(i)} \cup (IF WithEmpty THEN {"EMPTY"} ELSE {})
Init == tabs \in [1..NT -> [Keys -> {ABSENT, TOMB, "VAL"} \cup (IF WithEmpty THEN {"EMPTY"} ELSE {})]] /\ done = FALSE
Ts == [i \in 1..NT |-> [k \in Keys |-> IF tabs[i][k] = "VAL" THEN "v" \o ToString(i) ELSE tabs[i][k]]]
Next == ~done /\ done' = TRUE /\ UNCHANGED tabs
Spec == Init /\ [][Next]_vars
\* the views agree with each other (C08 as statements about one union map)
EachKeyOnceAscending == LET s == ScanOf(Ts, Keys) IN \A i \in 1..(Len(s) - 1) : s[i][1] < s[i + 1][1]
NewestWins == \A k \in Keys : \A i \in 1..NT : (Ts[i][k] # ABSENT /\ \A j \in (i + 1)..NT : Ts[j][k] = ABSENT) => SuperGet(Ts, k) = Ts[i][k]
NoForeignValue == \A e \in {ScanOf(Ts, Keys)[i] : i \in 1..Len(ScanOf(Ts, Keys))} : \E i \in 1..NT : Ts[i][e[1]] = e[2]
ScanIsGetOfLive == \A i \in 1..Len(ScanOf(Ts, Keys)) : SuperGet(Ts, ScanOf(Ts, Keys)[i][1]) = ScanOf(Ts, Keys)[i][2]
CompactIsScan == CompactOf(Ts, Keys, "latest") = ScanOf(Ts, Keys)
\* A stacked reader is itself a table reader and may be a member of another stack.  As the OLDEST member it is indistinguishable from its own
\* members spliced in: Get / Contains see its newest entry (tombstones included), scans see its live entries, and whatever it hides is hidden by
\* nothing older.  (Nested anywhere else it is NOT: its scans omit a tombstone that would have to shadow an older member.)
GetView(ts)  == [k \in Keys |-> Latest(ts, k)]
ScanView(ts) == [k \in Keys |-> IF Latest(ts, k) = TOMB THEN ABSENT ELSE Latest(ts, k)]
NestedOldestIsFlat == \A j \in 1..NT : LET inner == SubSeq(Ts, 1, j)  rest == SubSeq(Ts, j + 1, NT) IN
                         /\ \A k \in Keys : Latest(<<GetView(inner)>> \o rest, k) = Latest(Ts, k)
                         /\ ScanOf(<<ScanView(inner)>> \o rest, Keys) = ScanOf(Ts, Keys)
Emit == ~done => PrintT(<<"BEH", ToJson(Ts)>>)
=============================================================================
