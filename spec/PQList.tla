------------------------------- MODULE PQList -------------------------------
(* C16: enumeration of lists of ascending inputs for the merge heap; MergeOk of the canonical merge is checked for every list. *)
EXTENDS SortedMapPQ
CONSTANTS PKeys, NIn
VARIABLES ins, fin
pvars == <<ins, fin, S, hist>>
Asc == {SortedSeq(T) : T \in SUBSET PKeys}
PInit == ins \in [1..NIn -> Asc] /\ fin = FALSE /\ S = {} /\ hist = <<>>
PNext == ~fin /\ fin' = TRUE /\ UNCHANGED <<ins, S, hist>>
PSpec == PInit /\ [][PNext]_pvars
\* canonical merge: sort all (key, input, position) triples by (key, input)
Canon == LET F == Flatten(ins, 1)
             s == SetToSortSeq(F, LAMBDA a, b : a[1] < b[1] \/ (a[1] = b[1] /\ a[2] < b[2]))
         IN [i \in 1..Len(s) |-> <<s[i][1], s[i][2]>>]
CanonIsOk == MergeOk(ins, Canon)
PEmit == ~fin => PrintT(<<"BEH", ToJson(ins)>>)
=============================================================================
