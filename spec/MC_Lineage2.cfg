SPECIFICATION Spec
CONSTANTS
  Keys = {0, 1}
  NT = 2
  DropAlways = FALSE
INVARIANTS CompactPreservesReads GapFree Emit
CHECK_DEADLOCK FALSE
