---------------------------- MODULE LibLifecycle ----------------------------
(* Life cycle of the library's file objects (recordio/file_writer.go, file_reader.go, mmap_reader.go): which call is accepted in which phase
   (new / open / closed), that a refused call has no effect, and what the file holds in the end.  Behaviour beyond the listed properties,
   bound through C04 (engine "liblife").  The objects differ on purpose where the code differs:
     fw  FileWriter   Close in phase new succeeds and closes for good; a second Close is refused; Seek into the file header is always refused
     fr  FileReader   Close in phase new succeeds and closes for good; a second Close is refused
     mm  MMapReader   Close always succeeds (idempotent); Open after Close is refused
   Readers run on a file of three records r1 r2 r3.  The stream writer of package sstables has NO such guard (a second Open silently restarts the
   table, Open after Close corrupts it, Close before Open panics): DESIGN section 6, observation 7 - not modelled as intended behaviour.      *)
EXTENDS Integers, Sequences, TLC, Json
CONSTANTS Kind, MaxCalls
VARIABLES phase, recs, pos, hist
vars == <<phase, recs, pos, hist>>
OpsOf(k) == IF k = "fw" THEN {"open", "write", "writesync", "seekhdr", "close"}
            ELSE IF k = "fr" THEN {"open", "read", "skip", "close"}
            ELSE {"open", "at2", "seek0", "close"}
FileRecs == <<"r1", "r2", "r3">>
\* the reply of a call: "ok" | "err" | a record token | "EOF"
Reply(k, ph, op, nrec, p) ==
  IF op = "open" THEN (IF ph = "new" THEN "ok" ELSE "err")
  ELSE IF op = "close" THEN (IF k = "mm" THEN "ok" ELSE IF ph = "closed" THEN "err" ELSE "ok")
  ELSE IF ph # "open" THEN "err"
  ELSE IF op \in {"write", "writesync"} THEN "ok"
  ELSE IF op = "seekhdr" THEN "err"
  ELSE IF op = "read" THEN (IF p <= 3 THEN FileRecs[p] ELSE "EOF")
  ELSE IF op = "skip" THEN (IF p <= 3 THEN "ok" ELSE "EOF")
  ELSE IF op = "at2" THEN "r2"
  ELSE "r1"                                    \* seek0: the first record at or after offset 0
NextPhase(k, ph, op) == IF op = "open" /\ ph = "new" THEN "open"
                        ELSE IF op = "close" /\ (ph # "closed") THEN "closed" ELSE ph
Init == phase = "new" /\ recs = 0 /\ pos = 1 /\ hist = <<>>
Call(op) == LET r == Reply(Kind, phase, op, recs, pos) IN
            /\ Len(hist) < MaxCalls
            /\ phase' = NextPhase(Kind, phase, op)
            /\ recs' = IF op \in {"write", "writesync"} /\ r = "ok" THEN recs + 1 ELSE recs
            /\ pos' = IF op \in {"read", "skip"} /\ phase = "open" /\ pos <= 3 THEN pos + 1 ELSE pos
            /\ hist' = Append(hist, [op |-> op, r |-> r])
Next == \E op \in OpsOf(Kind) : Call(op)
Spec == Init /\ [][Next]_vars
\* a refused call changes nothing
RefusedIsNoOp == [][hist'[Len(hist')].r = "err" => phase' = phase /\ recs' = recs /\ pos' = pos]_vars
ClosedStaysClosed == [][phase = "closed" => phase' = "closed"]_vars
\* what a fresh reader finds after the writer object is gone: every accepted record, in order - if the writer was ever opened (else not even a header)
EverOpened == \E i \in 1..Len(hist) : hist[i].op = "open" /\ hist[i].r = "ok"
GenLeaf == Len(hist) = MaxCalls => PrintT(<<"BEH", ToJson(hist)>>)
=============================================================================
