SPECIFICATION Spec
CONSTANTS
  S = {1, 2, 3}
  MaxSteps = 1
INVARIANTS ClosedReleasesAll BoundedWhileOpen GenLeaf
CHECK_DEADLOCK FALSE
