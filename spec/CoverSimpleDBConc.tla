------------------------- MODULE CoverSimpleDBConc -------------------------
(* Transition cover of the CONCURRENT model for the schedule replay (C05): as CoverSimpleDB.tla, over GenSimpleDBConc.tla's completely labelled
   actions.  Abstract signature of a step: who is where (both clients' pc, who holds the database lock, flusher and compactor stage), how many
   tables, which stores are non-empty, which layer answers each key - before and after - and the label (thread + step).  Needs -workers 1.   *)
EXTENDS GenSimpleDBConc
Abs == <<pc, dbLock.w # "none", dbLock.r, fpc, cpc, Len(tables), mem # Empty, imm # Empty, pending # NoStore,
         [k \in Keys |-> IF mem[k] # NONE THEN "w" ELSE IF imm[k] # NONE THEN "r" ELSE IF Stack(tables)[k] # NONE THEN "t" ELSE "-"]>>
Label == <<hist'[Len(hist')].a, hist'[Len(hist')].c>>
CInit == GInit /\ TLCSet(1, {})
CSpec == CInit /\ [][GNext]_gvars
\* Overlaps of the successor's history (the operator of GenSimpleDBConc.tla reads the unprimed variable)
OverlapsOf(h) == \E i, j \in 1..Len(h) : i < j /\ h[i].a = "gettables" /\ h[j].a = "getmem" /\ h[i].c = h[j].c
                                       /\ (\A n \in (i + 1)..(j - 1) : ~(h[n].a = "getmem" /\ h[n].c = h[i].c))
                                       /\ {n \in (i + 1)..(j - 1) : h[n].a \in {"flushinstall", "creflect", "put", "del", "putrotate", "handoff"}} # {}
Cover == LET t == <<Abs, Label, Abs'>> IN
         IF t \in TLCGet(1) THEN TRUE ELSE PrintT(<<"COV", ToJson([ov |-> OverlapsOf(hist'), h |-> hist'])>>) /\ TLCSet(1, TLCGet(1) \cup {t})
CView == vars
=============================================================================
