SPECIFICATION TSpec
CONSTANTS
  Ranks = {0}
  Vals = {"vA"}
  Faults = {"", "data", "index"}
  MaxWrites = 0
INVARIANTS TAscending Report
CHECK_DEADLOCK FALSE
