SPECIFICATION Spec
CONSTANTS
  MaxTables = 5
  MaxCycles = 8
  K = 1
  ReleaseBeforeJoin = TRUE
INVARIANTS HandlesBounded ClosedReleasesAll NoGrowthWithCycles CloseCanProceed
CHECK_DEADLOCK FALSE
