SPECIFICATION FairSpec
CONSTANTS
  MaxTables = 5
  MaxCycles = 8
  K = 1
  ReleaseBeforeJoin = FALSE
INVARIANTS HandlesBounded ClosedReleasesAll NoGrowthWithCycles CloseCanProceed
PROPERTIES CloseTerminates
CHECK_DEADLOCK FALSE
