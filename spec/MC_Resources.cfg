SPECIFICATION Spec
CONSTANTS
  MaxTables = 5
  MaxCycles = 8
  K = 1
INVARIANTS HandlesBounded ClosedReleasesAll NoGrowthWithCycles
CHECK_DEADLOCK FALSE
