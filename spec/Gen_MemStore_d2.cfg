SPECIFICATION Spec
CONSTANTS
  Keys = {0, 1}
  Vals = {"EMPTY", "vA", "vB"}
  KLen <- MC_KLen
  VLen <- MC_VLen
  MaxCalls = 2
INVARIANTS GenLeaf
CHECK_DEADLOCK FALSE
