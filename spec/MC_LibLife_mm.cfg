SPECIFICATION Spec
CONSTANTS
  Kind = "mm"
  MaxCalls = 5
INVARIANTS GenLeaf
PROPERTIES RefusedIsNoOp ClosedStaysClosed
CHECK_DEADLOCK FALSE
