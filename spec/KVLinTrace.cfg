SPECIFICATION Spec
CONSTRAINT HW
POSTCONDITION Report
CHECK_DEADLOCK FALSE
