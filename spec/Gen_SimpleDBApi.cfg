SPECIFICATION Spec
CONSTANTS
  Keys = {0, 1}
  Vals = {"a", "b"}
  MaxCalls = 6
  LogBeforeValidate = FALSE
INVARIANTS RecoveryAgrees SameVerdict GenLeaf
PROPERTIES RejectedIsNoOp

CHECK_DEADLOCK FALSE
