------------------------------ MODULE ResTrace ------------------------------
(* Trace specification for C19: the hook events of real sessions (open, install, compact.merged, reflect.done, close.begin,
   close.flusher, close.done) drive the actions of Resources.tla - an event whose action is not enabled is rejected - and every
   observation of the real process (descriptors, mappings under the database directory, goroutines inside the module, live tables),
   taken at quiescent points, is compared with the model state.  Library object life cycles are judged by their own observations. *)
EXTENDS Resources, Json, IOUtils
Trace == ndJsonDeserialize(IOEnv.TRACE)
VARIABLES l, bad, nok, cs, dead
tvars == <<vars, l, bad, nok, cs, dead>>
TInit == Init /\ l = 1 /\ bad = <<>> /\ nok = 0 /\ cs = -1 /\ dead = FALSE
Ev == Trace[l]
Consume == l' = l + 1
Good == nok' = nok + 1 /\ UNCHANGED <<bad, dead>>
Bad(c) == bad' = Append(bad, [case |-> cs, line |-> l, clause |-> c, ev |-> ToString(Ev)]) /\ UNCHANGED nok
\* after a rejected model step the model state of this case means nothing any more: only the observations are judged until the next reset
Reject(c) == Bad(c) /\ dead' = TRUE /\ UNCHANGED vars
ObsClause == IF Ev.open
             THEN IF ~dead /\ phase # "open" THEN "observed-open-but-model-is-not"
                  ELSE IF ~dead /\ compactor = "none" /\ Ev.tables # tables THEN "table-count-differs-from-model"
                  ELSE IF ~ObsOk(TRUE, Ev.tables, Ev.fds, Ev.maps, Ev.gor, 4) THEN "handles-not-bounded-by-live-tables"
                  ELSE IF ~dead /\ compactor = "none" /\ (Ev.maps # tableH \/ Ev.fds # walH) THEN "note:handles-differ-from-model"   \* exact agreement with the model is more than C19 asks for (bounded + released): a note
                  ELSE "ok"
             ELSE IF ~ObsOk(FALSE, 0, Ev.fds, Ev.maps, Ev.gor, 0) THEN "not-released-by-close"
                  ELSE IF ~dead /\ (phase # "closed" \/ handles # 0 \/ threads # 0) THEN "model-not-closed-at-closed-observation"
                  ELSE "ok"
LibClause == IF Ev.closed /\ (Ev.fds # 0 \/ Ev.maps # 0) THEN "library-object-not-released-by-close"
             ELSE IF ~Ev.closed /\ Ev.fds + Ev.maps > Ev.bound THEN "library-object-handles-grow" ELSE "ok"
Judge(c) == IF c = "ok" THEN Good ELSE Bad(c) /\ UNCHANGED dead
\* the return statement of Close (no hook): release, silently, before the next line is looked at
Silent == /\ phase = "joined" /\ ~dead /\ CloseRelease /\ UNCHANGED <<l, bad, nok, cs, dead>>
Line ==
  /\ l <= Len(Trace) /\ (phase = "joined" => dead) /\ Consume
  /\ CASE Ev.t = "reset" -> /\ cs' = Ev.case /\ dead' = FALSE /\ UNCHANGED <<bad, nok>>
                            /\ phase' = "closed" /\ tables' = 0 /\ tableH' = 0 /\ walH' = 0 /\ flusher' = FALSE /\ compactor' = "none"
                            /\ csel' = 0 /\ released' = FALSE /\ cycles' = 0
       [] Ev.t = "obs" -> UNCHANGED <<vars, cs>> /\ Judge(ObsClause)
       [] Ev.t = "libobs" -> UNCHANGED <<vars, cs>> /\ Judge(LibClause)
       [] Ev.t = "reopen" -> UNCHANGED <<vars, cs>> /\ Judge(IF Ev.err # "" THEN "directory-not-reusable-after-close" ELSE "ok")
       [] Ev.t = "bgfail" -> UNCHANGED <<vars, cs>> /\ Judge("background-failure")
       \* disabledness: CloseFlusherJoined is not enabled while the flusher is at work - however long that takes
       [] Ev.t = "blocked" -> UNCHANGED <<vars, cs>> /\ Judge(IF Ev.still THEN "ok" ELSE "close-returned-while-the-flusher-was-still-at-work")
       [] dead /\ Ev.t \notin {"reset", "obs", "libobs", "reopen", "bgfail", "blocked"} -> UNCHANGED <<vars, cs, bad, nok, dead>>
       [] ~dead /\ Ev.t = "open" ->
            \* recovery decides how many tables there are (logged); everything else is Open(bg)
            UNCHANGED cs /\ IF phase = "closed"
                            THEN /\ phase' = "open" /\ tables' = Ev.tables /\ tableH' = Ev.tables /\ walH' = 1 /\ flusher' = TRUE
                                 /\ compactor' = (IF Ev.bg THEN "idle" ELSE "none") /\ released' = FALSE /\ csel' = 0 /\ cycles' = 0 /\ Good
                            ELSE Reject("open-not-enabled")
       [] ~dead /\ Ev.t = "install" -> UNCHANGED cs /\ IF ENABLED Flush THEN Flush /\ Good ELSE Reject("flush-install-not-enabled")
       [] ~dead /\ Ev.t = "compact.merged" ->
            UNCHANGED cs /\ IF compactor = "none" THEN UNCHANGED vars /\ Good     \* manual cycle: one step at reflect.done
                            ELSE IF ENABLED CompStart(Ev.ninputs) THEN CompStart(Ev.ninputs) /\ Good ELSE Reject("compaction-merge-not-enabled")
       [] ~dead /\ Ev.t = "reflect.done" ->
            UNCHANGED cs /\ IF compactor = "none"
                            THEN IF ENABLED Compact(Ev.ninputs) THEN Compact(Ev.ninputs) /\ Good ELSE Reject("compaction-not-enabled")
                            ELSE IF ENABLED CompReflect /\ csel = Ev.ninputs THEN CompReflect /\ Good ELSE Reject("compaction-reflect-not-enabled")
       [] ~dead /\ Ev.t = "close.begin" -> UNCHANGED cs /\ IF ENABLED CloseLock THEN CloseLock /\ Good ELSE Reject("close-not-enabled")
       [] ~dead /\ Ev.t = "close.flusher" -> UNCHANGED cs /\ IF ENABLED CloseFlusherJoined THEN CloseFlusherJoined /\ Good ELSE Reject("close-flusher-join-not-enabled")
       [] ~dead /\ Ev.t = "close.done" -> UNCHANGED cs /\ IF ENABLED CloseJoin THEN CloseJoin /\ Good ELSE Reject("close-compactor-join-not-enabled")
       [] OTHER -> UNCHANGED <<vars, cs, bad, nok, dead>>
Step == Silent \/ Line
TSpec == TInit /\ [][Step]_tvars
Report == (l = Len(Trace) + 1) => PrintT(<<"VERDICT", nok, ToJson(bad)>>)
=============================================================================
