------------------------------ MODULE ResTrace ------------------------------
(* Judge of resource observations taken at quiescent points of real sessions and of library object life cycles (C19). *)
EXTENDS Resources, Json, IOUtils
Trace == ndJsonDeserialize(IOEnv.TRACE)
VARIABLES l, bad, nok, cs
tvars == <<phase, tables, handles, threads, cycles, l, bad, nok, cs>>
TInit == phase = "closed" /\ tables = 0 /\ handles = 0 /\ threads = 0 /\ cycles = 0 /\ l = 1 /\ bad = <<>> /\ nok = 0 /\ cs = -1
Ev == Trace[l]
Check == CASE Ev.t = "obs" -> IF ObsOk(Ev.open, Ev.tables, Ev.fds, Ev.maps, Ev.gor, 4) THEN "ok"
                              ELSE IF Ev.open THEN "handles-not-bounded-by-live-tables" ELSE "not-released-by-close"
           [] Ev.t = "libobs" -> IF Ev.closed /\ (Ev.fds # 0 \/ Ev.maps # 0) THEN "library-object-not-released-by-close"
                                 ELSE IF ~Ev.closed /\ Ev.fds + Ev.maps > Ev.bound THEN "library-object-handles-grow" ELSE "ok"
           [] Ev.t = "reopen" -> IF Ev.err # "" THEN "directory-not-reusable-after-close" ELSE "ok"
           [] Ev.t = "bgfail" -> "background-failure"
           [] OTHER -> "ok"
Step == /\ l <= Len(Trace) /\ l' = l + 1 /\ UNCHANGED <<phase, tables, handles, threads, cycles>>
        /\ IF Ev.t = "reset" THEN cs' = Ev.case /\ UNCHANGED <<bad, nok>>
           ELSE /\ UNCHANGED cs
                /\ LET c == Check IN IF c = "ok" THEN nok' = nok + 1 /\ UNCHANGED bad
                                     ELSE bad' = Append(bad, [case |-> cs, line |-> l, clause |-> c, ev |-> ToString(Ev)]) /\ UNCHANGED nok
TSpec == TInit /\ [][Step]_tvars
Report == (l = Len(Trace) + 1) => PrintT(<<"VERDICT", nok, ToJson(bad)>>)
=============================================================================
