------------------------- MODULE LibLifecycleTrace -------------------------
(* Judge of real call sequences on one file writer / file reader / mmap reader in every phase (engine "liblife"). One line per sequence. *)
EXTENDS LibLifecycle, IOUtils
Trace == ndJsonDeserialize(IOEnv.TRACE)
VARIABLES l, bad, nok
tvars == <<phase, recs, pos, hist, l, bad, nok>>
TInit == phase = "new" /\ recs = 0 /\ pos = 1 /\ hist = <<>> /\ l = 1 /\ bad = <<>> /\ nok = 0
Ev == Trace[l]
RECURSIVE Expect(_, _, _, _, _)
Expect(k, calls, i, ph, p) ==
  IF i > Len(calls) THEN <<>>
  ELSE LET op == calls[i].op
           r  == Reply(k, ph, op, 0, p)
           p2 == IF op \in {"read", "skip"} /\ ph = "open" /\ p <= 3 THEN p + 1 ELSE p
       IN <<r>> \o Expect(k, calls, i + 1, NextPhase(k, ph, op), p2)
Got(calls) == [i \in 1..Len(calls) |-> calls[i].r]
\* ---- verdicts are confined to what C04 states; the strict phase table above is reported as a note when the code deviates from it ----
\* phase as the replies themselves tell it
RECURSIVE ObsPhases(_, _, _)
ObsPhases(calls, i, ph) ==
  IF i > Len(calls) THEN <<>>
  ELSE LET ph2 == IF calls[i].op = "open" /\ calls[i].r = "ok" THEN "open" ELSE IF calls[i].op = "close" /\ calls[i].r = "ok" /\ ph # "new" THEN "closed"
                  ELSE IF calls[i].op = "close" /\ calls[i].r = "ok" THEN "closed" ELSE ph
       IN <<ph>> \o ObsPhases(calls, i + 1, ph2)
\* the writer's file: exactly the records whose Write / WriteSync returned success, in order (nothing at all - not even a header - if none did and the
\* writer was never opened)
AckIdx(calls) == SelectSeq([i \in 1..Len(calls) |-> i], LAMBDA i : calls[i].op \in {"write", "writesync"} /\ calls[i].r = "ok")
ExpFinal(k, calls) == LET idx == AckIdx(calls) IN [n \in 1..Len(idx) |-> "w" \o ToString(idx[n])]
OpenedOk(calls) == \E i \in 1..Len(calls) : calls[i].op = "open" /\ calls[i].r = "ok"
FinalOk(k, calls, final) == IF k # "fw" THEN TRUE
                            ELSE IF ~OpenedOk(calls) /\ AckIdx(calls) = <<>> THEN final \in {<<"UNREADABLE">>, <<>>}
                            ELSE final = ExpFinal(k, calls)
\* a call made in the phase that accepts it must do its work: the strict table's reply is required wherever the object is open by its own account
\* and the strict table says so too (valid use); data replies must be the right record everywhere
ValidUseOk(k, calls) ==
  LET exp == Expect(k, calls, 1, "new", 1)
      obs == ObsPhases(calls, 1, "new")
  IN \A i \in 1..Len(calls) :
       /\ (obs[i] = "open" /\ exp[i] # "err" /\ calls[i].op \notin {"open", "close"}) => calls[i].r = exp[i]
       /\ (calls[i].r \notin {"ok", "err", "EOF"}) => calls[i].r = exp[i]          \* a record token (or a panic text) must be the expected record
       /\ (calls[i].op = "open" /\ obs[i] = "new") => calls[i].r = "ok"
Check == IF ~ValidUseOk(Ev.kind, Ev.calls) THEN "valid-call-wrong-reply"
         ELSE IF ~FinalOk(Ev.kind, Ev.calls, Ev.final) THEN "file-content-is-not-the-acknowledged-writes"
         ELSE IF Got(Ev.calls) # Expect(Ev.kind, Ev.calls, 1, "new", 1) THEN "note:life-cycle-reply"
         ELSE "ok"
Step == /\ l <= Len(Trace) /\ l' = l + 1 /\ UNCHANGED <<phase, recs, pos, hist>>
        /\ LET c == Check IN
           IF c = "ok" THEN nok' = nok + 1 /\ UNCHANGED bad
           ELSE bad' = Append(bad, [case |-> l, line |-> l, clause |-> c, ev |-> ToString(Ev),
                                    expected |-> ToString(<<Expect(Ev.kind, Ev.calls, 1, "new", 1), ExpFinal(Ev.kind, Ev.calls)>>)]) /\ UNCHANGED nok
TSpec == TInit /\ [][Step]_tvars
Report == (l = Len(Trace) + 1) => PrintT(<<"VERDICT", nok, ToJson(bad)>>)
=============================================================================
