SPECIFICATION Spec
CONSTANTS
  Keys = {0, 1}
  Vals = {"a", "b"}
  Clients = {"c1", "c2"}
  MaxOps = 4
INVARIANTS TypeOK
CHECK_DEADLOCK FALSE
