--------------------------- MODULE LifecycleTrace ---------------------------
(* Judge of real call sequences on one simpledb.DB handle in every phase (engine "lifecycle"). One line per sequence. *)
EXTENDS Lifecycle, IOUtils
Trace == ndJsonDeserialize(IOEnv.TRACE)
VARIABLES l, bad, nok
tvars == <<phase, val, hist, l, bad, nok>>
TInit == phase = "new" /\ val = "none" /\ hist = <<>> /\ l = 1 /\ bad = <<>> /\ nok = 0
Ev == Trace[l]
RECURSIVE Expect(_, _, _, _)
Expect(calls, i, ph, v) ==
  IF i > Len(calls) THEN <<>>
  ELSE LET op == calls[i].op
           r  == Reply(ph, op)
           out == IF op = "get" /\ r = "ok" THEN v ELSE r
           v2 == IF r # "ok" THEN v ELSE IF op = "put" THEN calls[i].v ELSE IF op = "del" THEN "none" ELSE v
       IN <<out>> \o Expect(calls, i + 1, NextPhase(ph, op), v2)
Got(calls) == [i \in 1..Len(calls) |-> calls[i].r]
\* ---- verdicts are confined to what C17 states (valid calls work; a call that returns an error has no effect); where the code merely deviates from the
\*      strict phase table above (a second Close that succeeds, another error value) the line is reported as a note ----
Refused(r) == r \in {"ErrNotOpenedYet", "ErrAlreadyOpen", "ErrAlreadyClosed"} \/ (Len(r) >= 4 /\ SubSeq(r, 1, 4) = "err:")
\* first offending call (0 = none): phase and value as the replies themselves tell them
RECURSIVE Offence(_, _, _, _)
Offence(calls, i, ph, v) ==
  IF i > Len(calls) THEN 0
  ELSE LET op == calls[i].op
           r  == calls[i].r
           off == \/ (ph = "new" /\ op = "open" /\ r # "ok")                      \* whatever was refused before, a new handle opens
                  \/ (ph = "open" /\ op \in {"put", "del", "close"} /\ r # "ok")  \* valid calls work
                  \/ (ph = "open" /\ op = "get" /\ r # v)                        \* ... and read what the acknowledged calls wrote, nothing a refused call left
           ph2 == IF op = "open" /\ r = "ok" THEN "open" ELSE IF op = "close" /\ r = "ok" THEN "closed" ELSE ph
           v2 == IF ph # "open" \/ r # "ok" THEN v ELSE IF op = "put" THEN calls[i].v ELSE IF op = "del" THEN "none" ELSE v
       IN IF off THEN i ELSE Offence(calls, i + 1, ph2, v2)
Check == IF Offence(Ev.calls, 1, "new", "none") # 0 THEN "lifecycle-reply"
         ELSE IF Got(Ev.calls) # Expect(Ev.calls, 1, "new", "none") THEN "note:strict-phase-table"
         ELSE "ok"
Step == /\ l <= Len(Trace) /\ l' = l + 1 /\ UNCHANGED <<phase, val, hist>>
        /\ LET c == Check IN
           IF c = "ok" THEN nok' = nok + 1 /\ UNCHANGED bad
           ELSE bad' = Append(bad, [case |-> l, line |-> l, clause |-> c, ev |-> ToString(Ev), expected |-> ToString(Expect(Ev.calls, 1, "new", "none"))]) /\ UNCHANGED nok
TSpec == TInit /\ [][Step]_tvars
Report == (l = Len(Trace) + 1) => PrintT(<<"VERDICT", nok, ToJson(bad)>>)
=============================================================================
