--------------------------- MODULE LifecycleTrace ---------------------------
(* Judge of real call sequences on one simpledb.DB handle in every phase (engine "lifecycle"). One line per sequence. *)
EXTENDS Lifecycle, IOUtils
Trace == ndJsonDeserialize(IOEnv.TRACE)
VARIABLES l, bad, nok
tvars == <<phase, val, hist, l, bad, nok>>
TInit == phase = "new" /\ val = "none" /\ hist = <<>> /\ l = 1 /\ bad = <<>> /\ nok = 0
Ev == Trace[l]
RECURSIVE Expect(_, _, _, _)
Expect(calls, i, ph, v) ==
  IF i > Len(calls) THEN <<>>
  ELSE LET op == calls[i].op
           r  == Reply(ph, op)
           out == IF op = "get" /\ r = "ok" THEN v ELSE r
           v2 == IF r # "ok" THEN v ELSE IF op = "put" THEN calls[i].v ELSE IF op = "del" THEN "none" ELSE v
       IN <<out>> \o Expect(calls, i + 1, NextPhase(ph, op), v2)
Got(calls) == [i \in 1..Len(calls) |-> calls[i].r]
Step == /\ l <= Len(Trace) /\ l' = l + 1 /\ UNCHANGED <<phase, val, hist>>
        /\ IF Got(Ev.calls) = Expect(Ev.calls, 1, "new", "none") THEN nok' = nok + 1 /\ UNCHANGED bad
           ELSE bad' = Append(bad, [case |-> l, line |-> l, clause |-> "lifecycle-reply", ev |-> ToString(Ev), expected |-> ToString(Expect(Ev.calls, 1, "new", "none"))]) /\ UNCHANGED nok
TSpec == TInit /\ [][Step]_tvars
Report == (l = Len(Trace) + 1) => PrintT(<<"VERDICT", nok, ToJson(bad)>>)
=============================================================================
