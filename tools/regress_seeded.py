#!/usr/bin/env python3
"""Run every stored seeded change against the current quick checks (the checks named in its meta.json) and print which are (still) detected.
usage: tools/regress_seeded.py [parallel]   - writes seeded/REGRESSION.txt"""
import concurrent.futures, glob, json, os, subprocess, sys, time

def one(d):
    m = json.load(open(os.path.join(d, "meta.json")))
    name = os.path.basename(d)
    res = {}
    for c in m["detection"]:
        out = subprocess.run(["/verif/tools/try_mutant.sh", os.path.join(d, "patch.diff"), c], stdout=subprocess.PIPE, stderr=subprocess.STDOUT, text=True).stdout
        ex = [l for l in out.splitlines() if l.startswith("exit=")]
        res[c] = ex[-1] if ex else "?"
        if res[c] == "exit=1":
            break          # detected: the other checks need not run
    return name, res

def main():
    par = int(sys.argv[1]) if len(sys.argv) > 1 else 3
    dirs = sorted(glob.glob("/verif/seeded/C*-*"))
    t0 = time.time()
    lines = []
    with concurrent.futures.ThreadPoolExecutor(par) as ex:
        for name, res in ex.map(one, dirs):
            ok = any(v == "exit=1" for v in res.values())
            lines.append("%-8s %s %s" % (name, "detected" if ok else "NOT-DETECTED", res))
            print(lines[-1], flush=True)
    nd = sum(1 for l in lines if "NOT-DETECTED" in l)
    lines.append("%d seeded changes, %d not detected, %.0f s" % (len(dirs), nd, time.time() - t0))
    print(lines[-1])
    open("/verif/seeded/REGRESSION.txt", "w").write("\n".join(lines) + "\n")

if __name__ == "__main__":
    main()
