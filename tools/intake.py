#!/usr/bin/env python3
"""intake of a sub-agent delivery: tools/intake.py <Cxx> <delivery dir with patch.diff demo_test.go notes.md> <check[,check...]>
validates it in a scratch worktree, runs the named quick checks against it, stores it as seeded/<Cxx>-<next n>/"""
import glob, os, re, subprocess, sys
prop, d, checks = sys.argv[1], sys.argv[2], sys.argv[3]
ns = [int(os.path.basename(x).split("-")[1]) for x in glob.glob("/verif/seeded/%s-*" % prop)]
name = "%s-%d" % (prop, max(ns + [0]) + 1)
demo = os.path.join(d, "demo_test.go")
first = open(demo).readline()
m = re.search(r"place in\s+`?([A-Za-z0-9_/]+)", first)
pkg = (m.group(1).rstrip("/") if m else "simpledb")
notes = open(os.path.join(d, "notes.md")).read() if os.path.exists(os.path.join(d, "notes.md")) else ""
paras = [" ".join(p.split()) for p in re.split(r"\n\s*\n", notes) if p.strip()]
breaks = (paras[0] if paras else "")[:400]
needs = next((p for p in paras if re.match(r"(?i)(needed|what is needed|needs|to manifest|manifest)", p)), paras[2] if len(paras) > 2 else "")[:500]
subprocess.run(["/verif/tools/store_seeded.py", name, prop, os.path.join(d, "patch.diff"), demo, pkg, breaks, needs, checks])
