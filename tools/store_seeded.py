#!/usr/bin/env python3
"""store a validated seeded change under /verif/seeded/<name>/ (patch.diff, demo_test.go, meta.json)"""
import json, os, shutil, subprocess, sys
name, prop, patch, demo, pkg, breaks, needs, caught_by = sys.argv[1:9]
d = os.path.join("/verif/seeded", name)
os.makedirs(d, exist_ok=True)
if os.path.abspath(patch) != os.path.join(d, "patch.diff"):
    shutil.copyfile(patch, os.path.join(d, "patch.diff"))
shutil.copyfile(demo, os.path.join(d, "demo_test.go"))
val = subprocess.run(["/verif/tools/validate_mutant.sh", os.path.join(d, "patch.diff"), os.path.join(d, "demo_test.go"), pkg],
                     stdout=subprocess.PIPE, stderr=subprocess.STDOUT, text=True).stdout
res = [l for l in val.splitlines() if l.startswith("RESULT")]
det = {}
for c in caught_by.split(","):
    if not c:
        continue
    out = subprocess.run(["/verif/tools/try_mutant.sh", os.path.join(d, "patch.diff"), c], stdout=subprocess.PIPE, stderr=subprocess.STDOUT, text=True).stdout
    sigs = sorted({l.strip()[len("signature: "):][:160] for l in out.splitlines() if l.strip().startswith("signature:")})
    ex = [l for l in out.splitlines() if l.startswith("exit=")]
    det[c] = {"exit": ex[-1] if ex else "?", "signatures": sigs[:6]}
meta = {"property": prop, "breaks": breaks, "needs_to_manifest": needs, "demo_package": pkg,
        "validation": res[-1] if res else val[-300:],
        "validated_with": "tools/validate_mutant.sh (scratch worktree of /repo HEAD: build with and without -tags verif, go test ./..., demo with/without patch)",
        "detection": det, "detection_cmd": "tools/try_mutant.sh seeded/%s/patch.diff <check> (git apply in /repo, ./check <id> quick, git reset)" % name}
json.dump(meta, open(os.path.join(d, "meta.json"), "w"), indent=1)
print(name, meta["validation"][:60], {k: (v["exit"], v["signatures"][:2]) for k, v in det.items()})
