#!/usr/bin/env python3
"""re-run the detection of a stored seeded change against the current checks and update its meta.json: redetect.py <name> <check>[,<check>...] [note]"""
import json, os, subprocess, sys
name, checks = sys.argv[1], sys.argv[2]
d = os.path.join("/verif/seeded", name)
meta = json.load(open(os.path.join(d, "meta.json")))
for c in checks.split(","):
    out = subprocess.run(["/verif/tools/try_mutant.sh", os.path.join(d, "patch.diff"), c], stdout=subprocess.PIPE, stderr=subprocess.STDOUT, text=True).stdout
    sigs = sorted({l.strip()[len("signature: "):][:160] for l in out.splitlines() if l.strip().startswith("signature:")})
    ex = [l for l in out.splitlines() if l.startswith("exit=")]
    first = meta["detection"].get(c, {}).get("exit")
    meta["detection"][c] = {"exit": ex[-1] if ex else "?", "signatures": sigs[:6]}
    if first and first != meta["detection"][c]["exit"]:
        meta["detection"][c]["first_version_of_the_check"] = first
if len(sys.argv) > 3:
    meta["note"] = sys.argv[3]
json.dump(meta, open(os.path.join(d, "meta.json"), "w"), indent=1)
print(name, {k: (v["exit"], v["signatures"][:2]) for k, v in meta["detection"].items()})
