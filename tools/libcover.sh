#!/bin/sh
# Coverage survey: which statements of the library do the quick checks execute at all?  (a hole-finder for the generators, not a check)
# usage: tools/libcover.sh [Cxx ...]   -> /tmp/libcover/{func.txt,uncovered.txt}
OUT=/tmp/libcover; rm -rf $OUT; mkdir -p $OUT/data
cd /verif
IDS="$@"; [ -z "$IDS" ] && IDS="C01 C02 C03 C04 C05 C06 C07 C08 C09 C10 C11 C12 C13 C14 C15 C16 C17 C19 C20"
for c in $IDS; do
  VERIF_COVERDIR=$OUT/data VERIF_EVIDENCE_DIR=$OUT/evidence ./check $c quick > $OUT/$c.log 2>&1; echo "$c rc=$?"
done
export GOFLAGS=-mod=mod GOPROXY=off
cd /verif/harness && go tool covdata textfmt -i=$OUT/data -o $OUT/cover.txt && go tool cover -func=$OUT/cover.txt > $OUT/func.txt
grep -v "100.0%" $OUT/func.txt | grep "go-sstables/" | grep -v "_test\|/examples/\|/_examples\|/benchmark\|\.pb\.go\|/kaitai/\|verif_on" | sort -t% -k1 > $OUT/uncovered.txt
tail -1 $OUT/func.txt
