#!/bin/sh
# usage: validate_mutant.sh <patch.diff> <demo_test.go> -> checks in a scratch worktree of /repo HEAD that
#   (1) patch applies, builds (with and without -tags verif), pinned suite passes; (2) demo FAILS with the patch; (3) demo PASSES without.
P="$(readlink -f "$1")"; D="$(readlink -f "$2")"
export GOFLAGS=-mod=mod GOPROXY=off
W=$(mktemp -d /tmp/mutval.XXXXXX); rmdir "$W"
git -C /repo worktree add -q --detach "$W" HEAD || exit 2
trap 'git -C /repo worktree remove --force "$W" >/dev/null 2>&1; rm -rf "$W"' EXIT
PKG="$3"
[ -z "$PKG" ] && PKG=$(head -3 "$D" | grep -oE '(place in|directory:|belongs in) *`?[a-zA-Z0-9_/]+' | head -1 | sed -E 's/(place in|directory:|belongs in) *`?//; s|/$||')
[ -z "$PKG" ] && PKG=simpledb
cd "$W" || exit 2
cp "$D" "$PKG/zz_demo_test.go"
TESTS=$(grep -o '^func Test[A-Za-z0-9_]*' "$PKG/zz_demo_test.go" | sed 's/func //' | paste -sd'|')
if ! go test $RACEFLAG -count=1 -run "^($TESTS)\$" ./$PKG/ > /tmp/mutval_clean.log 2>&1; then echo "RESULT demo-fails-on-clean-tree"; tail -5 /tmp/mutval_clean.log; exit 1; fi
rm "$PKG/zz_demo_test.go"
if ! git apply "$P" 2>/dev/null; then echo "RESULT patch-does-not-apply"; exit 1; fi
if ! go build ./... >/dev/null 2>&1 || ! go build -tags verif ./... > /dev/null 2>&1; then echo "RESULT does-not-build"; exit 1; fi
if ! go test -count=1 ./... > /tmp/mutval_suite.log 2>&1; then echo "RESULT suite-fails-with-patch"; grep -E "^(---|FAIL)" /tmp/mutval_suite.log | head -5; exit 1; fi
cp "$D" "$PKG/zz_demo_test.go"
if go test $RACEFLAG -count=1 -run "^($TESTS)\$" ./$PKG/ > /tmp/mutval_mut.log 2>&1; then echo "RESULT demo-passes-with-patch (not a demonstration)"; exit 1; fi
echo "RESULT valid (suite passes with patch; demo fails with patch, passes without) pkg=$PKG tests=$TESTS"
