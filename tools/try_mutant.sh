#!/bin/sh
# usage: tools/try_mutant.sh <patch.diff> <Cxx> [tier]  - run one check against a seeded change WITHOUT touching /repo:
# the change is applied in a scratch worktree of /repo HEAD and the check builds against it (VERIF_REPO); the worktree is removed afterwards.
P="$(readlink -f "$1")"; ID="$2"; TIER="${3:-quick}"
W=$(mktemp -d /tmp/muttry.XXXXXX); rmdir "$W"
git -C /repo worktree add -q --detach "$W" HEAD || exit 2
trap 'git -C /repo worktree remove --force "$W" >/dev/null 2>&1; rm -rf "$W"' EXIT
if ! git -C "$W" apply "$P" 2>/dev/null; then echo "patch does not apply"; exit 2; fi
LOG=$(mktemp /tmp/mutant_run.XXXXXX.log)
cd /verif && VERIF_REPO="$W" VERIF_EVIDENCE_DIR=/tmp/mutant_evidence ./check "$ID" "$TIER" > "$LOG" 2>&1; RC=$?
grep -E "VIOLATION|KNOWN-FINDING|signature|\] OK|machinery" "$LOG" | head -12
rm -f "$LOG"
echo "exit=$RC"
exit $RC
