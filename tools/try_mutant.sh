#!/bin/sh
# usage: tools/try_mutant.sh <patch.diff> <Cxx> [tier]   - apply a seeded change to /repo, run one check, always undo
P="$(readlink -f "$1")"; ID="$2"; TIER="${3:-quick}"
cd /repo || exit 2
if ! git diff --quiet; then echo "/repo has uncommitted changes"; exit 2; fi
git apply "$P" 2>/dev/null || { echo "patch does not apply"; git reset -q --hard HEAD; exit 2; }
cd /verif && ./check "$ID" "$TIER" > /tmp/mutant_run.log 2>&1; RC=$?
cd /repo && git reset -q --hard HEAD && git clean -fdq
grep -E "VIOLATION|KNOWN-FINDING|signature|\] OK|machinery" /tmp/mutant_run.log | head -12
echo "exit=$RC"
exit $RC
