"""Crash points are system calls (DESIGN §4.4): record a driver under strace, rebuild the directory image after every prefix of
file-system-mutating syscalls, run the REAL recovery on every image in killable worker processes.

No hook is needed: the driver's NDJSON trace file is written with one write(2) per event, so hook events, invocation/response
markers and file-system syscalls of all threads appear in one totally ordered log."""
import hashlib
import json
import os
import re
import shutil
import subprocess

import common
from common import MachineryError, log

TRACE_CALLS = ("openat,open,creat,write,pwrite64,writev,lseek,ftruncate,truncate,rename,renameat,renameat2,unlink,unlinkat,"
               "mkdir,mkdirat,rmdir,fsync,fdatasync,close")

_hex_re = re.compile(r"\\x([0-9a-f]{2})")


def unhex_bytes(s):
    """strace -xx string body (without quotes) -> bytes"""
    return bytes(int(h, 16) for h in _hex_re.findall(s))


def unhex_str(s):
    if "\\x" in s:
        return unhex_bytes(s).decode("utf-8", "replace")
    return s


def record(cmd, log_path, timeout=300, env=None, inject=None):
    """run cmd under strace -f; returns (rc, timed_out)"""
    sc = ["strace", "-f", "-yy", "-xx", "-s", "50000000", "-o", log_path, "-e", "trace=" + TRACE_CALLS]
    if inject:
        sc += inject
    rc, out, err, to = common.run_proc(sc + cmd, timeout, env=env)
    return rc, to, (err or b"").decode("utf-8", "replace")


class Sys:
    __slots__ = ("pid", "name", "args", "ret", "retpath", "line")

    def __init__(self, pid, name, args, ret, retpath, line):
        self.pid, self.name, self.args, self.ret, self.retpath, self.line = pid, name, args, ret, retpath, line


_line_re = re.compile(r"^(\d+)\s+(\w+)\((.*)\)\s+=\s+(-?\d+|\?)(?:<([^>]*)>)?(.*)$", re.S)
_unf_re = re.compile(r"^(\d+)\s+(\w+)\((.*) <unfinished \.\.\.>$", re.S)
_res_re = re.compile(r"^(\d+)\s+<\.\.\. (\w+) resumed>(.*)$", re.S)


def parse(log_path):
    """-> list of completed syscalls in completion order (failed calls dropped)"""
    pending = {}
    out = []
    with open(log_path, "r", errors="replace") as f:
        for n, line in enumerate(f, 1):
            line = line.rstrip("\n")
            if "+++ " in line or "--- SIG" in line:
                continue
            m = _unf_re.match(line)
            if m:
                pending[m.group(1)] = (m.group(2), m.group(3))
                continue
            m = _res_re.match(line)
            if m:
                pid = m.group(1)
                if pid not in pending:
                    continue
                name, head = pending.pop(pid)
                line = "%s %s(%s%s" % (pid, name, head, m.group(3))
            m = _line_re.match(line)
            if not m:
                continue
            pid, name, args, ret, retpath, rest = m.groups()
            if ret == "?" or int(ret) < 0:
                continue
            out.append(Sys(pid, name, args, int(ret), unhex_str(retpath) if retpath else None, n))
    return out


def split_args(a):
    """split on top-level commas (strings contain only \\xNN escapes, fd annotations are <...>)"""
    out, depth, cur, inq = [], 0, [], False
    for ch in a:
        if ch == '"':
            inq = not inq
        if not inq:
            if ch in "<{[(":
                depth += 1
            elif ch in ">}])":
                depth -= 1
            elif ch == "," and depth == 0:
                out.append("".join(cur).strip())
                cur = []
                continue
        cur.append(ch)
    if cur:
        out.append("".join(cur).strip())
    return out


_fd_re = re.compile(r"^(-?\d+|AT_FDCWD)(?:<(.*)>)?$", re.S)


def fd_arg(tok):
    m = _fd_re.match(tok)
    if not m:
        return None, None
    fd = m.group(1)
    p = unhex_str(m.group(2)) if m.group(2) else None
    return fd, p


def str_arg(tok):
    tok = tok.strip()
    if tok.startswith('"'):
        end = tok.rfind('"')
        return unhex_bytes(tok[1:end])
    return b""


class FSModel:
    """in-memory image of one directory tree + per-fd offsets"""

    def __init__(self, root):
        self.root = root.rstrip("/")
        self.files = {}
        self.dirs = {self.root}
        self.pos = {}

    def under(self, p):
        return p is not None and (p == self.root or p.startswith(self.root + "/"))

    def snapshot(self):
        return ({p: bytes(b) for p, b in self.files.items()}, set(self.dirs))

    def digest(self):
        h = hashlib.sha1()
        for p in sorted(self.dirs):
            h.update(b"D" + p.encode() + b"\0")
        for p in sorted(self.files):
            h.update(b"F" + p.encode() + b"\0" + hashlib.sha1(bytes(self.files[p])).digest())
        return h.hexdigest()


def load_tree(model, root):
    """initialise the model from an existing directory (level-2 recording starts from a level-1 image)"""
    for dp, dn, fn in os.walk(root):
        model.dirs.add(dp)
        for f in fn:
            with open(os.path.join(dp, f), "rb") as fh:
                model.files[os.path.join(dp, f)] = bytearray(fh.read())


def apply_sys(model, s, trace_path=None):
    """apply one syscall. Returns None (no effect on the tree), ("trace", bytes) or ("fs", description)"""
    a = split_args(s.args)
    n = s.name
    if n in ("openat", "open", "creat"):
        path = s.retpath
        if path is None:
            return None
        flags = a[2] if n == "openat" else (a[1] if n == "open" else "O_CREAT|O_WRONLY|O_TRUNC")
        fd = str(s.ret)
        model.pos[(s.pid, fd)] = 0
        if not model.under(path):
            return None
        if os.path.basename(path) == "" or path in model.dirs:
            return None
        eff = None
        if path not in model.files:
            if "O_CREAT" in flags:
                model.files[path] = bytearray()
                eff = ("fs", "create %s" % rel(model, path))
            # opening a directory or a missing file without O_CREAT: nothing
        elif "O_TRUNC" in flags and ("O_WRONLY" in flags or "O_RDWR" in flags) and len(model.files[path]) > 0:
            model.files[path] = bytearray()
            eff = ("fs", "truncate-open %s" % rel(model, path))
        if "O_APPEND" in flags and path in model.files:
            model.pos[(s.pid, fd)] = ("append",)
        return eff
    if n in ("write", "pwrite64"):
        fd, path = fd_arg(a[0])
        if path is None:
            return None
        if trace_path and path == trace_path:
            return ("trace", str_arg(a[1])[: s.ret])
        if not model.under(path):
            return None
        data = str_arg(a[1])[: s.ret]
        if path not in model.files:
            model.files[path] = bytearray()
        buf = model.files[path]
        if n == "pwrite64":
            off = int(a[3])
        else:
            p = model.pos.get((s.pid, fd), 0)
            # threads of one process share fds: look the fd up regardless of the tid
            p = _shared_pos(model, fd, p)
            off = len(buf) if p == ("append",) else p
        if off > len(buf):
            buf.extend(b"\0" * (off - len(buf)))
        buf[off:off + len(data)] = data
        if n == "write":
            _set_pos(model, fd, off + len(data))
        return ("fs", "write %s +%d@%d" % (rel(model, path), len(data), off))
    if n == "lseek":
        fd, path = fd_arg(a[0])
        _set_pos(model, fd, s.ret)
        return None
    if n == "ftruncate":
        fd, path = fd_arg(a[0])
        if not model.under(path) or path not in model.files:
            return None
        ln = int(a[1])
        buf = model.files[path]
        if ln < len(buf):
            del buf[ln:]
        else:
            buf.extend(b"\0" * (ln - len(buf)))
        return ("fs", "ftruncate %s %d" % (rel(model, path), ln))
    if n in ("rename", "renameat", "renameat2"):
        if n == "rename":
            old, new = str_arg(a[0]).decode(), str_arg(a[1]).decode()
        else:
            old = _at_path(a[0], a[1])
            new = _at_path(a[2], a[3])
        if not (model.under(old) or model.under(new)):
            return None
        _rename(model, old, new)
        return ("fs", "rename %s -> %s" % (rel(model, old), rel(model, new)))
    if n in ("unlink", "unlinkat", "rmdir"):
        listing = ""
        if n == "unlinkat":
            p = _at_path(a[0], a[1])
            if not a[0].startswith("AT_FDCWD"):
                # os.RemoveAll walks a directory fd: the order of these unlinks is the directory listing order (file system defined)
                listing = " [listing-order]"
        else:
            p = str_arg(a[0]).decode()
        if not model.under(p):
            return None
        if p in model.files:
            del model.files[p]
            return ("fs", "unlink %s%s" % (rel(model, p), listing))
        if p in model.dirs:
            model.dirs.discard(p)
            return ("fs", "rmdir %s" % rel(model, p))
        return None
    if n in ("mkdir", "mkdirat"):
        p = _at_path(a[0], a[1]) if n == "mkdirat" else str_arg(a[0]).decode()
        if not model.under(p) or p in model.dirs:
            return None
        model.dirs.add(p)
        return ("fs", "mkdir %s" % rel(model, p))
    if n == "close":
        fd, path = fd_arg(a[0])
        for k in [k for k in model.pos if k[1] == fd]:
            del model.pos[k]
        return None
    if n in ("fsync", "fdatasync"):
        fd, path = fd_arg(a[0])
        if model.under(path):
            return ("sync", "fsync %s" % rel(model, path))
        return None
    return None


def _shared_pos(model, fd, default):
    for (pid, f), v in model.pos.items():
        if f == fd:
            return v
    return default


def _set_pos(model, fd, v):
    hit = False
    for k in list(model.pos):
        if k[1] == fd:
            if model.pos[k] != ("append",):
                model.pos[k] = v
            hit = True
    if not hit:
        model.pos[("?", fd)] = v


def _at_path(dirtok, nametok):
    fd, dpath = fd_arg(dirtok)
    name = str_arg(nametok).decode("utf-8", "replace")
    if name.startswith("/"):
        return name
    if dpath:
        return os.path.normpath(os.path.join(dpath, name))
    return os.path.abspath(name)


def _rename(model, old, new):
    if old in model.files:
        model.files[new] = model.files.pop(old)
        return
    if old in model.dirs:
        for p in [p for p in model.dirs if p == old or p.startswith(old + "/")]:
            model.dirs.discard(p)
            model.dirs.add(new + p[len(old):])
        for p in [p for p in model.files if p.startswith(old + "/")]:
            model.files[new + p[len(old):]] = model.files.pop(p)


def rel(model, p):
    return p[len(model.root) + 1:] if p.startswith(model.root + "/") else p


def materialize(snapshot, root, dest):
    files, dirs = snapshot
    os.makedirs(dest, exist_ok=True)
    for d in sorted(dirs):
        if d == root:
            continue
        os.makedirs(dest + d[len(root):], exist_ok=True)
    for p, b in files.items():
        t = dest + p[len(root):]
        os.makedirs(os.path.dirname(t), exist_ok=True)
        with open(t, "wb") as f:
            f.write(b)


def normalize_desc(d):
    """file role instead of concrete names: signature material for known findings"""
    d = re.sub(r"sstable_compaction\d+", "sstable_compaction*", d)
    d = re.sub(r"sstable_\d{15}", "sstable_N", d)
    d = re.sub(r"\d{6}\.wal", "N.wal", d)
    d = re.sub(r"\+\d+@\d+", "", d)
    d = re.sub(r"ftruncate (\S+) \d+", r"ftruncate \1", d)
    d = re.sub(r"to \d+ of \d+ bytes", "", d)
    return d.strip()


class CrashPoint:
    __slots__ = ("idx", "desc", "ntrace", "snap", "digest", "line", "perm")

    def __init__(self, idx, desc, ntrace, snap, digest, line, perm=False):
        self.idx, self.desc, self.ntrace, self.snap, self.digest, self.line, self.perm = idx, desc, ntrace, snap, digest, line, perm


def crash_points(syscalls, root, trace_path, initial=None, permute_unlinks=False, max_points=None):
    """Walk the syscall log. Returns (points, trace_events, final_model). points[0] is the initial state. Every completed
    mutating syscall of any thread yields one point carrying the number of trace events written before it."""
    model = FSModel(root)
    if initial:
        load_tree(model, initial)
        # the recorded process works on `root`; the initial tree was loaded from a copy
        if initial != root:
            model2 = FSModel(root)
            for d in model.dirs:
                model2.dirs.add(root + d[len(initial):])
            for p, b in model.files.items():
                model2.files[root + p[len(initial):]] = b
            model = model2
    tbuf = b""
    events = []
    points = [CrashPoint(0, "initial", 0, model.snapshot(), model.digest(), 0)]
    run = []     # current run of consecutive unlinks in one directory (for permutations)
    for s in syscalls:
        eff = apply_sys(model, s, trace_path)
        if eff is None:
            continue
        kind, d = eff
        if kind == "trace":
            tbuf += d
            while b"\n" in tbuf:
                ln, tbuf = tbuf.split(b"\n", 1)
                if ln.strip():
                    try:
                        ev = json.loads(ln)
                    except ValueError:
                        continue
                    events.append(ev)
                    if ev.get("t") == "ret":
                        # "kill at any instant" includes the instant right after a call returned and before the next syscall: same image
                        # as the previous point, but the call now counts as acknowledged
                        points.append(CrashPoint(len(points), "after-return", len(events), points[-1].snap, points[-1].digest, s.line))
            continue
        if kind == "sync":
            events.append({"t": "fsync", "file": d[len("fsync "):]})
            continue
        if d.startswith("write "):
            events.append({"t": "fswrite", "file": d.split(" ")[1]})
        dg = model.digest()
        if dg == points[-1].digest:
            continue
        points.append(CrashPoint(len(points), d, len(events), model.snapshot(), dg, s.line))
        if max_points and len(points) >= max_points:
            break
    return points, events, model


def unlink_permutation_points(points, root):
    """For every run of >= 2 consecutive unlinks inside one directory (os.RemoveAll: directory listing order is file-system
    defined) produce the images of other unlink orders: each proper non-empty subset that is not a prefix of the observed order."""
    import itertools
    extra = []
    i = 1
    while i < len(points):
        j = i
        names = []
        while j < len(points) and points[j].desc.startswith("unlink ") and points[j].desc.endswith(" [listing-order]"):
            p = points[j].desc[len("unlink "):-len(" [listing-order]")]
            if names and os.path.dirname(p) != os.path.dirname(names[0]):
                break
            names.append(p)
            j += 1
        if len(names) >= 2:
            base_files, base_dirs = points[i - 1].snap
            seen_prefix = {frozenset(names[:n]) for n in range(len(names) + 1)}
            subsets = []
            for r in range(1, len(names)):
                for sub in itertools.combinations(names, r):
                    if frozenset(sub) not in seen_prefix:
                        subsets.append(sub)
            for sub in subsets[:12]:
                files = {p: b for p, b in base_files.items() if p[len(root) + 1:] not in sub}
                snap = (files, set(base_dirs))
                extra.append(CrashPoint(-1, "unlink-other-order removed=%s kept=%s" % (
                    ",".join(os.path.basename(x) for x in sub), ",".join(os.path.basename(x) for x in names if x not in sub)),
                    points[j - 1].ntrace if False else points[i - 1].ntrace, snap, "perm", points[i].line, perm=True))
        i = max(j, i + 1)
    return extra


def wal_cut_points(points, root, max_images=2, span=120):
    """Asynchronous WAL: the buffered writer flushes at offsets that are arbitrary relative to the records, so a kill can leave the
    newest WAL file cut at any byte behind its 8-byte file header.  For the crash points with the largest newest WAL file, produce the
    images with that file cut at each of the last `span` offsets."""
    best = {}
    for p in points:
        files, _ = p.snap
        wals = sorted(f for f in files if f.startswith(root + "/wal/") and f.endswith(".wal"))
        if not wals or len(files[wals[-1]]) <= 8:
            continue
        key = (wals[-1], len(files[wals[-1]]))
        best.setdefault(key, p)
    extra = []
    for (last, size), p in sorted(best.items(), key=lambda kv: -kv[0][1])[:max_images]:
        files, dirs = p.snap
        for L in range(max(8, size - span), size):
            f2 = dict(files)
            f2[last] = files[last][:L]
            extra.append(CrashPoint(-1, "cut %s to %d of %d bytes" % (last[len(root) + 1:], L, size), p.ntrace, (f2, set(dirs)), "perm", p.line, perm=True))
    return extra


def recover_images(binary, image_dirs, keys_hex, nkeys, timeout_per=20, chunk=40, decode=False, cont=False, remat=None):
    """run the real recovery (vdrv dbread) on every image directory; returns {dir: result dict}.
    remat: {dir: callable that rebuilds the pristine image} - recovery changes the directory it runs on, so an image whose chunk died or was
    stopped at its deadline must be rebuilt before it is recovered alone (otherwise the second run sees the work of the first)"""
    results = {}

    def run_chunk(dirs, tmo):
        inp = common.scratch("dbread") + "/in-%s.json" % hashlib.sha1("|".join(dirs).encode()).hexdigest()[:12]
        with open(inp, "w") as f:
            json.dump({"keys": keys_hex, "n": nkeys, "dirs": dirs, "decode": decode, "cont": cont}, f)
        rc, out, err, to = common.run_proc([binary, "dbread", inp], tmo)
        got = {}
        for ln in (out or b"").decode("utf-8", "replace").splitlines():
            try:
                r = json.loads(ln)
                got[r["dir"]] = r
            except ValueError:
                pass
        os.remove(inp)
        return got, to, rc, (err or b"").decode("utf-8", "replace")

    chunks = [image_dirs[i:i + chunk] for i in range(0, len(image_dirs), chunk)]

    def work(dirs):
        got, to, rc, err = run_chunk(dirs, timeout_per * 4 + 3 * len(dirs))
        missing = [d for d in dirs if d not in got]
        def pristine(d):
            if remat and d in remat:
                shutil.rmtree(d, ignore_errors=True)
                shutil.rmtree(d + ".kill", ignore_errors=True)
                remat[d]()
        for d in missing:
            # the chunk died or hung inside this image (or after it): run it alone, on a rebuilt image
            pristine(d)
            g1, to1, rc1, err1 = run_chunk([d], timeout_per)
            if d not in g1 and to1:
                # a slow machine is not a hang: give it one generous retry before calling it one
                pristine(d)
                g1, to1, rc1, err1 = run_chunk([d], timeout_per * 6)
            if d in g1:
                got[d] = g1[d]
            elif to1:
                got[d] = {"dir": d, "ok": False, "err": "hang: recovery did not finish within %ds" % (timeout_per * 6), "m": []}
            else:
                got[d] = {"dir": d, "ok": False, "err": "recovery process died rc=%s: %s" % (rc1, _first_panic(err1)), "m": []}
        return got

    for got in common.parallel(work, chunks, nthreads=common.NCPU):
        results.update(got)
    return results


def _first_panic(err):
    for line in err.splitlines():
        if "panic" in line or "fatal" in line:
            return line.strip()[:300]
    return err.strip()[-200:]


def normalize_err(e):
    e = re.sub(r"/\S*?/(sstable_compaction)\d+", r"\1*", e)
    e = re.sub(r"/\S*/", "", e)
    e = re.sub(r"sstable_\d{15}", "sstable_N", e)
    e = re.sub(r"\d{6}\.wal", "N.wal", e)
    e = re.sub(r"\d+", "N", e)
    return e[:160]
