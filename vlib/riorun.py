"""Shared runner for the 'rio' engine (C04, C12, C20)."""
import os
import random

import common
import judge
from common import log

MARKER = bytes([0x91, 0x8D, 0x4C])


def payload_family(name, rng, bufs=(16, 64, 4096)):
    """record tokens -> payload bytes; sizes around buffer and page boundaries, marker-laden bytes"""
    out = {}

    def rnd(n):
        return bytes(rng.randrange(256) for _ in range(n))
    if name == "tiny":
        sizes = [1, 2, 5, 9, 15, 16, 17, 31]
    elif name == "buffer":
        sizes = sorted({max(1, b + d) for b in bufs for d in (-12, -1, 0, 1, 13)} | {2 * bufs[1]})
    elif name == "page":
        sizes = [4084, 4090, 4095, 4096, 4097, 8191, 8200, 100]
    elif name == "varint":       # lengths at the varint encoding boundaries of the record header
        sizes = [126, 127, 128, 129, 16382, 16383, 16384, 16385]
    elif name == "big":
        sizes = [70000, 1 << 20, (1 << 20) + 1, 3, 5000]
    elif name == "zerolead":     # payloads starting with 0x00 (a byte that terminates any varint running over from the header), many lengths
        sizes = list(range(1, 61))
    else:
        sizes = [3, 10, 40, 100, 300, 1000, 20, 64]
    for i, n in enumerate(sizes):
        if name == "marker":
            pats = [MARKER * (n // 3 + 1), b"\x91" * n, rnd(max(0, n - 1)) + b"\x91", rnd(max(0, n - 2)) + b"\x91\x8d", MARKER + rnd(n), rnd(n) + MARKER,
                    b"\x91\x91\x8d\x4c" + rnd(n), b"\x00" * n]
            b = pats[i % len(pats)][:max(n, 4)]
        elif name == "zeros":
            b = b"\x00" * n
        elif name == "compressible":
            b = (b"abcabcabd" * (n // 9 + 1))[:n]
        else:
            b = rnd(n)
        if name == "zerolead":
            b = b"\x00" + bytes([i]) + b"\x00" * (i % 3) + b
        else:
            b = bytes([65 + i]) + b  # make payloads pairwise distinct
        out["r%d" % i] = b
    assert len(set(out.values())) == len(out)
    return out


def concretize_ops(hist, toks, rng):
    """abstract classes A / B -> concrete record tokens (random per occurrence)"""
    ops = []
    for h in hist:
        rec = h["rec"]
        if rec in ("A", "B"):
            rec = rng.choice(toks)
        ops.append({"op": h["op"], "rec": rec, "j": h["j"]})
    return ops


def run_batches(o, binary, batches, tag, sigprefix="rio"):
    def do(b):
        name, recs, cases = b
        work = common.scratch("%s-%s" % (tag, name))
        trace = os.path.join(work, "trace.ndjson")
        judge.run_driver(binary, "rio", {"recs": {t: v.hex() for t, v in recs.items()}, "dir": work, "cases": cases}, trace, timeout=900)
        return judge.judge_trace("RecordIOTrace.tla", "RecordIOTrace.cfg", trace, o, "judge " + name, heap="6g", timeout=1200)

    res = common.parallel(do, batches)
    total = 0
    for (name, recs, cases), (nok, bad, r) in zip(batches, res):
        total += len(cases)
        o.traces += len(cases)
        seen = set()
        for b in bad:
            case = b.get("case", -1)
            key = (b["clause"], case)
            if key in seen:
                continue
            seen.add(key)
            if len(seen) > 30:
                break
            c = cases[case] if 0 <= case < len(cases) else None
            o.report("%s/%s" % (sigprefix, b["clause"]), "batch %s case %s line %s clause %s: %s\n  case: %s\n  record sizes: %s" % (
                name, case, b["line"], b["clause"], b.get("ev", "")[:600], str(c)[:500], {t: len(v) for t, v in recs.items()}),
                {"batch": name, "recs": {t: v.hex() for t, v in recs.items()} if sum(len(v) for v in recs.values()) < 20000 else "big", "case": c})
        log("[%s] batch %-26s %5d cases, %8s replies accepted, %d rejected (%.1fs)" % (tag, name, len(cases), nok, len(bad), r.wall))
    return total
