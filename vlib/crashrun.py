"""Crash-point sessions: record a db session under strace, enumerate every crash image, run the real recovery, build the judge trace."""
import json
import os
import shutil

import common
import crash
import dbrun
from common import MachineryError, log

NKEYS = 8


def record_session(binary, name, steps, seed=1, gates=False, timeout=240, keys=None):
    """returns dict(points, events, root, work, final_ok)"""
    work = common.scratch("crash-" + name)
    dbase = os.path.join(work, "d")
    if any(st.get("directio") for st in steps):
        # O_DIRECT is refused by tmpfs: the recorded session runs on a block-device file system (the crash images do not need one)
        import tempfile
        dbase = tempfile.mkdtemp(prefix="verif-dio-", dir=os.environ.get("VERIF_DISK_SCRATCH", "/var/tmp"))
    root = os.path.join(dbase, "case0")
    trace = os.path.join(work, "trace.ndjson")
    keys = keys or dbrun.key_bytes()
    inp = {"keys": [k.hex() for k in keys], "dir": dbase, "cases": [{"steps": steps}], "gates": gates, "seed": seed}
    in_path = os.path.join(work, "in.json")
    with open(in_path, "w") as f:
        json.dump(inp, f)
    slog = os.path.join(work, "strace.log")
    env = dict(os.environ)
    env["VERIF_KEEP_DIR"] = "1"
    rc, to, err = crash.record([binary, "db", in_path, trace], slog, timeout=timeout, env=env)
    if not os.path.exists(slog) or os.path.getsize(slog) == 0:
        raise MachineryError("strace produced no log (ptrace not permitted?): rc=%s %s" % (rc, err[-500:]))
    if to:
        raise MachineryError("recorded session %s timed out" % name)
    sys = crash.parse(slog)
    points, events, model = crash.crash_points(sys, root, trace)
    os.remove(slog)
    if dbase != os.path.join(work, "d"):
        shutil.rmtree(dbase, ignore_errors=True)
    return {"points": points, "events": events, "root": root, "work": work, "rc": rc, "keys": keys, "model": model, "err": err}


def recover_points(binary, sess, points, tag="img"):
    """materialize each distinct image, run the real recovery, attach results (points with identical content share the result);
    images are removed afterwards"""
    root = sess["root"]
    imgroot = os.path.join(sess["work"], tag)
    dirs = {}
    remat = {}
    order = []
    for i, p in enumerate(points):
        key = p.digest if p.digest != "perm" else "perm-%d" % i
        if key not in dirs:
            # every third image is recovered in a directory whose name contains glob metacharacters
            d = os.path.join(imgroot, "p%05d%s" % (i, "[g]*?" if i % 3 == 0 else ""))
            crash.materialize(p.snap, root, d)
            dirs[key] = d
            remat[d] = (lambda snap=p.snap, d=d: crash.materialize(snap, root, d))
        order.append(key)
    res = crash.recover_images(binary, list(dirs.values()), [k.hex() for k in sess["keys"]], NKEYS, decode=True, cont=True, remat=remat)
    shutil.rmtree(imgroot, ignore_errors=True)
    return [res[dirs[k]] for k in order]


def image_lines(case, points, results):
    """one line per distinct image: the decoded disk state (SimpleDBDisk.tla variables) + what the real recovery made of it"""
    lines = []
    seen = set()
    for p, r in zip(points, results):
        if p.digest in seen and p.digest != "perm":
            continue
        seen.add(p.digest)
        d = r.get("disk")
        if d is None:      # the recovery process died before it could print (hang / crash): judged by CrashJudge only
            continue
        m = (list(r.get("m") or []) + ["?"] * NKEYS)[:NKEYS]
        lines.append({"t": "img", "case": case, "idx": p.idx, "desc": p.desc, "ok": bool(r.get("ok")), "err": (r.get("err") or "")[:300], "m": m,
                      "wals": d["wals"], "tables": d["tables"], "comp": d["comp"], "unknown": d["unknown"]})
    return lines


def judge_lines(case, mode, events, points, results, kind="crash", refs=None):
    """interleave session events and crash points in log order"""
    lines = [{"t": "reset", "case": case, "mode": mode}]
    by_n = {}
    for p, r in zip(points, results):
        by_n.setdefault(p.ntrace, []).append((p, r))

    def cps(n):
        for p, r in by_n.get(n, []):
            m = list(r.get("m") or [])
            m = (m + ["?"] * NKEYS)[:NKEYS]
            lines.append({"t": "cp", "idx": p.idx, "desc": p.desc, "ok": bool(r.get("ok")), "err": (r.get("err") or "")[:300], "m": m,
                          "kind": kind, "ref": refs or [], "cont": (r.get("cont") or "")[:300]})
    for i, e in enumerate(events):
        cps(i)
        t = e.get("t")
        if t == "inv" and e.get("op") in ("put", "del"):
            lines.append({"t": "inv", "g": e["g"], "k": e["k"], "v": e["v"] if e["op"] == "put" else "none"})
        elif t == "put":
            lines.append({"t": "app", "k": e["k"], "v": e["v"]})
        elif t == "del":
            lines.append({"t": "app", "k": e["k"], "v": "none"})
        elif t == "ret":
            lines.append({"t": "ret", "g": e["g"]})
        elif t == "rotwal":
            lines.append({"t": "rot"})
    for n in sorted(k for k in by_n if k >= len(events)):
        cps(n)
    return lines


# ---------------------------------------------------------------------------------------------------------------------------------
# protocol conformance of the syscall sequence (DiskProtoTrace.tla)
# ---------------------------------------------------------------------------------------------------------------------------------
import re as _re

_tab_re = _re.compile(r"^sstable_(\d{15})(?:/(.*))?$")
_comp_re = _re.compile(r"^(sstable_compaction\d+)(?:/(.*))?$")
_wal_re = _re.compile(r"^wal/(\d{6})\.wal$")


def _classify(path):
    m = _tab_re.match(path)
    if m:
        return "table", int(m.group(1)), m.group(2) or ""
    m = _comp_re.match(path)
    if m:
        return "comp", m.group(1), m.group(2) or ""
    m = _wal_re.match(path)
    if m:
        return "wal", int(m.group(1)), ""
    return "other", 0, ""


def proto_lines(case, points, events, start_phase="recovery"):
    """one line per mutating syscall (from the crash points) interleaved with phase changes derived from the open / close.done events"""
    lines = [{"t": "reset", "case": case}]
    if start_phase != "recovery":
        lines.append({"t": "phase", "phase": start_phase})
    phase_at = {}
    for i, e in enumerate(events):
        if e.get("t") == "open":
            phase_at[i + 1] = "run"
        elif e.get("t") == "close.done":
            phase_at[i + 1] = "recovery"
    last = 0
    for p in points:
        if p.perm or p.desc in ("initial", "after-return"):
            continue
        for n in range(last + 1, p.ntrace + 1):
            if n in phase_at:
                lines.append({"t": "phase", "phase": phase_at[n]})
        last = max(last, p.ntrace)
        d = p.desc.replace(" [listing-order]", "")
        op, _, rest = d.partition(" ")
        ev = {"t": "sys", "op": op, "kind": "other", "id": 0, "file": "", "target": 0, "metaDone": True, "afterRename": False, "desc": d}
        if op == "rename":
            a, _, b = rest.partition(" -> ")
            k, ident, f = _classify(a)
            kb, idb, _ = _classify(b)
            ev.update(kind=k, id=ident, target=idb if kb == "table" else -1)
        else:
            path = rest.split(" ")[0]
            k, ident, f = _classify(path)
            ev.update(kind=k, id=ident, file=f)
            if op == "truncate-open" or op == "ftruncate":
                ev["op"] = "truncate"
            if k == "comp" and f == "compaction_successful" and op == "write":
                m = _re.search(r"\+(\d+)@(\d+)", rest)
                if m and int(m.group(2)) >= 8:
                    ev["op"] = "flagrecord"
            if op == "rmdir" and k in ("table", "comp"):
                ev["file"] = ""
        lines.append(ev)
    return lines


def proto_init_line(snap, root):
    """abstract stages of a directory image (for recordings that start from a crash image): table complete iff its metadata is non-empty,
    compaction flagged iff the success file holds a record"""
    files, dirs = snap
    tables, comps, wals = [], [], []
    for d in sorted(dirs):
        if os.path.dirname(d) != root:
            continue
        k, ident, _ = _classify(os.path.basename(d))
        if k == "table":
            tables.append([ident, "complete" if files.get(d + "/meta.pb.bin") else "dir"])
        elif k == "comp":
            fl = files.get(d + "/compaction_successful")
            st = "flagged" if fl is not None and len(fl) > 8 else ("complete" if files.get(d + "/meta.pb.bin") else "dir")
            comps.append([ident, st])
    for p in sorted(files):
        k, ident, _ = _classify(p[len(root) + 1:])
        if k == "wal":
            wals.append(ident)
    return {"t": "init", "tables": tables, "comps": comps, "wals": wals}
