"""Crash-point sessions: record a db session under strace, enumerate every crash image, run the real recovery, build the judge trace."""
import json
import os
import shutil

import common
import crash
import dbrun
from common import MachineryError, log

NKEYS = 8


def record_session(binary, name, steps, seed=1, gates=False, timeout=240, keys=None):
    """returns dict(points, events, root, work, final_ok)"""
    work = common.scratch("crash-" + name)
    root = os.path.join(work, "d", "case0")
    trace = os.path.join(work, "trace.ndjson")
    keys = keys or dbrun.key_bytes()
    inp = {"keys": [k.hex() for k in keys], "dir": os.path.join(work, "d"), "cases": [{"steps": steps}], "gates": gates, "seed": seed}
    in_path = os.path.join(work, "in.json")
    with open(in_path, "w") as f:
        json.dump(inp, f)
    slog = os.path.join(work, "strace.log")
    env = dict(os.environ)
    env["VERIF_KEEP_DIR"] = "1"
    rc, to, err = crash.record([binary, "db", in_path, trace], slog, timeout=timeout, env=env)
    if not os.path.exists(slog) or os.path.getsize(slog) == 0:
        raise MachineryError("strace produced no log (ptrace not permitted?): rc=%s %s" % (rc, err[-500:]))
    if to:
        raise MachineryError("recorded session %s timed out" % name)
    sys = crash.parse(slog)
    points, events, model = crash.crash_points(sys, root, trace)
    os.remove(slog)
    return {"points": points, "events": events, "root": root, "work": work, "rc": rc, "keys": keys, "model": model, "err": err}


def recover_points(binary, sess, points, tag="img"):
    """materialize each distinct image, run the real recovery, attach results (points with identical content share the result);
    images are removed afterwards"""
    root = sess["root"]
    imgroot = os.path.join(sess["work"], tag)
    dirs = {}
    order = []
    for i, p in enumerate(points):
        key = p.digest if p.digest != "perm" else "perm-%d" % i
        if key not in dirs:
            d = os.path.join(imgroot, "p%05d" % i)
            crash.materialize(p.snap, root, d)
            dirs[key] = d
        order.append(key)
    res = crash.recover_images(binary, list(dirs.values()), [k.hex() for k in sess["keys"]], NKEYS)
    shutil.rmtree(imgroot, ignore_errors=True)
    return [res[dirs[k]] for k in order]


def judge_lines(case, mode, events, points, results, kind="crash", refs=None):
    """interleave session events and crash points in log order"""
    lines = [{"t": "reset", "case": case, "mode": mode}]
    by_n = {}
    for p, r in zip(points, results):
        by_n.setdefault(p.ntrace, []).append((p, r))

    def cps(n):
        for p, r in by_n.get(n, []):
            m = list(r.get("m") or [])
            m = (m + ["?"] * NKEYS)[:NKEYS]
            lines.append({"t": "cp", "idx": p.idx, "desc": p.desc, "ok": bool(r.get("ok")), "err": (r.get("err") or "")[:300], "m": m,
                          "kind": kind, "ref": refs or []})
    for i, e in enumerate(events):
        cps(i)
        t = e.get("t")
        if t == "inv" and e.get("op") in ("put", "del"):
            lines.append({"t": "inv", "g": e["g"], "k": e["k"], "v": e["v"] if e["op"] == "put" else "none"})
        elif t == "put":
            lines.append({"t": "app", "k": e["k"], "v": e["v"]})
        elif t == "del":
            lines.append({"t": "app", "k": e["k"], "v": "none"})
        elif t == "ret":
            lines.append({"t": "ret", "g": e["g"]})
        elif t == "rotwal":
            lines.append({"t": "rot"})
    for n in sorted(k for k in by_n if k >= len(events)):
        cps(n)
    return lines
