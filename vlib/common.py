"""Shared machinery: scratch dirs, harness build, TLC runs, evidence, known findings.

Verdict discipline (DESIGN §7): a check returns
  0  property held on everything explored (KNOWN-FINDING lines allowed)
  1  a divergence of the REAL code from the specification was observed (VIOLATION line printed)
  2  the machinery itself failed (TLC crash, build failure, dead driver, timeout) - never a violation
"""
import atexit
import json
import os
import re
import shutil
import signal
import subprocess
import sys
import tempfile
import time

VERIF = os.path.dirname(os.path.dirname(os.path.abspath(__file__)))
REPO = os.environ.get("VERIF_REPO", "/repo")
SPEC = os.path.join(VERIF, "spec")
HARNESS = os.path.join(VERIF, "harness")
EVIDENCE = os.environ.get("VERIF_EVIDENCE_DIR") or os.path.join(VERIF, "evidence")
REPLAYS = os.path.join(VERIF, "replays") if not os.environ.get("VERIF_EVIDENCE_DIR") else os.path.join(os.environ["VERIF_EVIDENCE_DIR"], "replays")
TLAJAR = "/opt/veriftools/tla/tla2tools.jar:/opt/veriftools/tla/CommunityModules-deps.jar"
NCPU = os.cpu_count() or 4

SEED = int(os.environ.get("VERIF_SEED", "1") or "1")

_scratch_root = None


class CodeCrash(Exception):
    """the code under test panicked / was aborted by the Go runtime (deadlock) inside a driver: an observed outcome, not a machinery problem"""

    def __init__(self, engine, msg, payload=None):
        Exception.__init__(self, msg)
        self.engine, self.msg, self.payload = engine, msg, payload or {}


def go_crash_in_library(stderr_text):
    """If a Go process died from a panic / fatal error whose first non-runtime frame is inside the library under test, return a short
    normalized description; None when it died elsewhere (a harness bug stays a machinery problem)."""
    import re
    m = re.search(r"^(panic: .*|fatal error: .*)$", stderr_text, re.M)
    if not m:
        return None
    head = m.group(1).strip()
    for ln in stderr_text[m.end():].splitlines():
        ln = ln.strip()
        if not ln or ln.startswith(("goroutine ", "[", "/", "created by", "panic(", "runtime.", "sync.", "internal/", "reflect.", "testing.", "\t")):
            continue
        if ln.startswith("github.com/thomasjungblut/go-sstables/"):
            fn = ln.split("(")[0].rsplit("/", 1)[-1]
            return "%s in %s" % (re.sub(r"0x[0-9a-f]+|\d+", "N", head)[:120], fn)
        if ln.startswith("main."):
            # the driver's own frame first: only the runtime's global deadlock report is attributed to the library (all goroutines blocked in it)
            return re.sub(r"\d+", "N", head)[:120] if "all goroutines are asleep" in head else None
    return re.sub(r"\d+", "N", head)[:120] if "all goroutines are asleep" in head else None


class MachineryError(Exception):
    """Raised when the check machinery (not the code under test) failed -> exit 2."""


def log(*a):
    print(*a, flush=True)


_root_lock = __import__("threading").Lock()


def scratch_root():
    global _scratch_root
    with _root_lock:
        if _scratch_root is None:
            base = "/dev/shm" if os.path.isdir("/dev/shm") and os.access("/dev/shm", os.W_OK) else tempfile.gettempdir()
            _scratch_root = tempfile.mkdtemp(prefix="verif-", dir=base)
            atexit.register(_cleanup)
    return _scratch_root


def _cleanup():
    if _scratch_root and os.environ.get("VERIF_KEEP") != "1":
        shutil.rmtree(_scratch_root, ignore_errors=True)


_scratch_names = set()
_scratch_lock = __import__("threading").Lock()


def scratch(name):
    """a scratch directory; the same name is never handed out twice within one run (parallel batches must not share files)"""
    base = name
    n = 1
    with _scratch_lock:
        while name in _scratch_names:
            n += 1
            name = "%s~%d" % (base, n)
        _scratch_names.add(name)
    p = os.path.join(scratch_root(), name)
    os.makedirs(p, exist_ok=True)
    return p


def go_env():
    env = dict(os.environ)
    env["GOFLAGS"] = "-mod=mod"
    env["GOPROXY"] = "off"
    env.pop("GOSUMDB", None)
    env.pop("GOTOOLCHAIN", None)
    # build cache outside /repo and /verif
    env.setdefault("GOCACHE", "/root/.cache/go-build")
    return env


_built = {}


def build_harness(race=False, tags="verif"):
    """Build the driver binary from /repo's CURRENT working tree (replace directive) with hooks on."""
    key = (race, tags)
    if key in _built:
        return _built[key]
    out = os.path.join(scratch("bin"), "vdrv" + ("-race" if race else "") + ("-" + tags if tags != "verif" else ""))
    src = HARNESS
    if os.path.abspath(REPO) != "/repo":
        # seeded-change runs point VERIF_REPO at a scratch worktree: build a copy of the harness module against it
        src = os.path.join(scratch_root(), "harness-src")
        if not os.path.isdir(src):
            shutil.copytree(HARNESS, src)
            gm = open(os.path.join(src, "go.mod")).read().replace("=> /repo", "=> " + os.path.abspath(REPO))
            open(os.path.join(src, "go.mod"), "w").write(gm)
    # keep go.sum in sync with the repository's
    try:
        shutil.copyfile(os.path.join(REPO, "go.sum"), os.path.join(src, "go.sum"))
    except OSError:
        pass
    cmd = ["go", "build"]
    if tags:
        cmd += ["-tags", tags]
    if race:
        cmd += ["-race"]
    if os.environ.get("VERIF_COVERDIR"):
        # coverage survey of the library under the drivers (tools/libcover.sh): every process that runs this binary writes its counters to GOCOVERDIR
        cmd += ["-cover", "-coverpkg=all"]
        os.environ["GOCOVERDIR"] = os.environ["VERIF_COVERDIR"]
    cmd += ["-o", out, "./cmd/vdrv"]
    t0 = time.time()
    p = subprocess.run(cmd, cwd=src, env=go_env(), stdout=subprocess.PIPE, stderr=subprocess.STDOUT, text=True)
    if p.returncode != 0:
        raise MachineryError("harness build failed (does /repo still compile with -tags verif?):\n" + p.stdout[-4000:])
    log("[build] vdrv%s built in %.1fs" % (" (-race)" if race else "", time.time() - t0))
    _built[key] = out
    return out


def run_proc(cmd, timeout, cwd=None, env=None, stdin=None, capture=True, pass_fds=()):
    """Run a process in its own process group under a deadline. Returns (rc, stdout, stderr, timed_out)."""
    p = subprocess.Popen(cmd, cwd=cwd, env=env, stdin=subprocess.PIPE if stdin is not None else subprocess.DEVNULL,
                         stdout=subprocess.PIPE if capture else None, stderr=subprocess.PIPE if capture else None,
                         start_new_session=True, pass_fds=pass_fds)
    try:
        out, err = p.communicate(input=stdin, timeout=timeout)
        return p.returncode, out, err, False
    except subprocess.TimeoutExpired:
        try:
            os.killpg(p.pid, signal.SIGKILL)
        except ProcessLookupError:
            pass
        out, err = p.communicate()
        return -9, out, err, True


# ----------------------------------------------------------------------------------------------
# TLC
# ----------------------------------------------------------------------------------------------

_spec_copy = None


def spec_dir():
    """TLC litters its working directory; run on a scratch copy of /verif/spec."""
    global _spec_copy
    with _scratch_lock:          # parallel judges may ask for it at the same moment
        if _spec_copy is None:
            d = os.path.join(scratch_root(), "spec")
            shutil.copytree(SPEC, d)
            _spec_copy = d
    return _spec_copy


class TLCResult:
    def __init__(self):
        self.rc = None
        self.out = ""
        self.generated = 0
        self.distinct = 0
        self.depth = 0
        self.ok = False            # "No error has been found"
        self.violated = None       # name of violated invariant/property (or "deadlock", "postcondition")
        self.error = None          # TLC runtime / parse error text (machinery)
        self.prints = []           # PrintT outputs (lines starting with <<"TAG", ...)
        self.wall = 0.0
        self.coverage = {}

    def __repr__(self):
        return "TLC(ok=%s violated=%s gen=%d distinct=%d depth=%d err=%s)" % (
            self.ok, self.violated, self.generated, self.distinct, self.depth, (self.error or "")[:200])


def tlc(module, cfg, workers=None, timeout=600, env_extra=None, simulate=None, depth=None, seed=None,
        deque=False, coverage=False, heap="8g", extra_args=(), dump_out=None):
    d = spec_dir()
    meta = tempfile.mkdtemp(prefix="md-", dir=scratch_root())
    env = dict(os.environ)
    jopts = []
    if deque:
        jopts.append("-Dtlc2.tool.queue.IStateQueue=StateDeque")
    cmd = ["java", "-XX:+UseParallelGC", "-Xmx" + heap, "-Xss64m"] + jopts + ["-cp", TLAJAR, "tlc2.TLC",
           "-metadir", meta, "-config", cfg, "-workers", str(workers or NCPU), "-noGenerateSpecTE"]
    if simulate:
        cmd += ["-simulate", simulate]
    if depth:
        cmd += ["-depth", str(depth)]
    if seed is not None:
        cmd += ["-seed", str(seed)]
    if coverage:
        cmd += ["-coverage", "1"]
    cmd += list(extra_args)
    cmd += [module]
    if env_extra:
        env.update(env_extra)
    t0 = time.time()
    rc, out, err, to = run_proc(cmd, timeout, cwd=d, env=env)
    r = TLCResult()
    r.wall = time.time() - t0
    r.rc = rc
    out = (out or b"").decode("utf-8", "replace")
    r.out = out
    shutil.rmtree(meta, ignore_errors=True)
    if dump_out:
        with open(dump_out, "w") as f:
            f.write(out)
    if to:
        r.error = "TLC timeout after %ds" % timeout
        return r
    # TLC's own messages only: the printed verdict lines can hold megabytes of digits (a rejected scan of zeroed values), on which the
    # patterns below backtrack quadratically while holding the interpreter lock (seen with seeded C03-17: 13 minutes without an end)
    full, out = out, "\n".join(ln for ln in out.splitlines() if not ln.startswith('<<"') and len(ln) < 4000)
    m = re.search(r"(\d+) states generated, (\d+) distinct states found", out)
    if m:
        r.generated, r.distinct = int(m.group(1)), int(m.group(2))
    m = re.search(r"The depth of the complete state graph search is (\d+)", out)
    if m:
        r.depth = int(m.group(1))
    r.ok = "No error has been found" in out
    m = re.search(r"Error: Invariant (\S+) is violated", out)
    if m:
        r.violated = m.group(1)
    m = re.search(r"Error: Action property (\S+) is violated", out)
    if m:
        r.violated = m.group(1)
    if "Temporal properties were violated" in out:
        r.violated = r.violated or "temporal"
    if re.search(r"Error: Deadlock reached", out):
        r.violated = "deadlock"
    if "Postcondition" in out and "violated" in out or "POSTCONDITION" in out and "violated" in out:
        r.violated = r.violated or "postcondition"
    if not r.ok and not r.violated:
        m = re.search(r"(Error:.*?)(?:\n\n|\Z)", out, re.S)
        r.error = (m.group(1) if m else out[-2000:])
    for line in full.splitlines():
        if line.startswith('<<"'):
            r.prints.append(line)
    return r



# ----------------------------------------------------------------------------------------------
# Apalache / TLAPS (unbounded arguments: inductive invariants of small integer specifications)
# ----------------------------------------------------------------------------------------------

def _proof_copy(tag):
    """Apalache and tlapm litter their working directory (_apalache-out, .tlacache): each run gets its own copy of the modules"""
    d = tempfile.mkdtemp(prefix="prf-%s-" % tag, dir=scratch_root())
    for f in os.listdir(SPEC):
        if f.endswith(".tla"):
            shutil.copyfile(os.path.join(SPEC, f), os.path.join(d, f))
    return d


def apalache(module, init, inv, length, next_="Next", cinit=None, timeout=300):
    """returns ("ok" | "violated" | "error", wall seconds, tail of the output)"""
    d = _proof_copy("apa")
    cmd = ["apalache-mc", "check", "--init=" + init, "--next=" + next_, "--inv=" + inv, "--length=%d" % length, "--out-dir=" + os.path.join(d, "out")]
    if cinit:
        cmd.append("--cinit=" + cinit)
    cmd.append(module)
    t0 = time.time()
    rc, out, err, to = run_proc(cmd, timeout, cwd=d)
    txt = (out or b"").decode("utf-8", "replace") + (err or b"").decode("utf-8", "replace")
    shutil.rmtree(d, ignore_errors=True)
    w = time.time() - t0
    if to:
        return "error", w, "apalache timeout after %ds" % timeout
    if "The outcome is: NoError" in txt and rc == 0:
        return "ok", w, txt[-400:]
    if "The outcome is: Error" in txt or "invariant" in txt and "violated" in txt:
        return "violated", w, txt[-1500:]
    return "error", w, txt[-1500:]


def tlapm(module, timeout=600):
    """returns (proved: bool, number of obligations, wall seconds, tail of the output)"""
    d = _proof_copy("tlaps")
    t0 = time.time()
    rc, out, err, to = run_proc(["tlapm", "--threads", str(NCPU), "--cleanfp", module], timeout, cwd=d)
    txt = (out or b"").decode("utf-8", "replace") + (err or b"").decode("utf-8", "replace")
    shutil.rmtree(d, ignore_errors=True)
    m = re.search(r"All (\d+) obligations? proved", txt)
    return (bool(m) and rc == 0 and not to), (int(m.group(1)) if m else 0), time.time() - t0, txt[-1500:]


def parse_tla_print(line):
    """Parse a PrintT line of the shape <<"TAG", ..., "json string">> -> (tag, rest_raw)."""
    m = re.match(r'<<"([A-Z_]+)",\s*(.*)>>\s*$', line)
    if not m:
        return None, None
    return m.group(1), m.group(2)


def tla_unquote(s):
    """TLC prints strings with \\" escapes; turn a printed TLA+ string literal into the python string."""
    s = s.strip()
    assert s.startswith('"') and s.endswith('"'), s[:80]
    return s[1:-1].replace('\\"', '"').replace("\\\\", "\\")


# ----------------------------------------------------------------------------------------------
# known findings
# ----------------------------------------------------------------------------------------------

def known_findings(pid):
    p = os.path.join(VERIF, "known_findings.json")
    if not os.path.exists(p):
        return []
    with open(p) as f:
        data = json.load(f)
    return [e for e in data.get("findings", []) if e.get("property") == pid and e.get("status") == "open"]


def match_finding(findings, signature):
    """A finding matches when its 'signature' regex fully matches the violation's signature string."""
    for f in findings:
        if re.fullmatch(f["signature"], signature):
            return f
    return None


# ----------------------------------------------------------------------------------------------
# evidence + outcome
# ----------------------------------------------------------------------------------------------

class Outcome:
    """Collects what a run covered and what it found; writes evidence; decides the exit code."""

    def __init__(self, pid, tier, level):
        self.pid = pid
        self.tier = tier
        self.level = level
        self.t0 = time.time()
        self.states = 0
        self.transitions = 0
        self.traces = 0
        self.evaluations = 0
        self.nontrivial = 0
        self.samples = []
        self.rule = ""
        self.exhaustive = None
        self.assumptions = []
        self.extra = {}
        self.violations = []   # (signature, description, replay_path)
        self.known_hit = {}    # signature regex -> count
        self.problems = []     # machinery problems
        self.findings = known_findings(pid)
        # replays of earlier runs of this property / tier / seed are stale
        import glob
        for d in glob.glob(os.path.join(REPLAYS, "%s-%s-seed%d-*" % (pid, tier, SEED))):
            shutil.rmtree(d, ignore_errors=True)

    def add_tlc(self, r, what=""):
        self.states += r.distinct
        self.transitions += r.generated
        self.extra.setdefault("tlc_runs", []).append(
            {"what": what, "distinct": r.distinct, "generated": r.generated, "depth": r.depth, "wall_s": round(r.wall, 1)})

    def sample(self, s, cap=6):
        if len(self.samples) < cap:
            self.samples.append(s)

    def report(self, signature, description, replay_payload=None):
        """A divergence of the real code. Known finding -> KNOWN-FINDING (once per entry), else violation."""
        f = match_finding(self.findings, signature)
        if f is not None:
            key = f["signature"]
            self.known_hit[key] = self.known_hit.get(key, 0) + 1
            if self.known_hit[key] == 1:
                log("KNOWN-FINDING: property=%s %s [%s]" % (self.pid, f["what"], signature))
            return False
        path = self._write_replay(signature, description, replay_payload)
        self.violations.append((signature, description, path))
        if len(self.violations) <= 20:
            log("VIOLATION property=%s replay=%s" % (self.pid, path))
            log("  signature: %s" % signature)
            log("  %s" % description[:1500])
        return True

    def _write_replay(self, signature, description, payload):
        os.makedirs(REPLAYS, exist_ok=True)
        n = len(self.violations)
        d = os.path.join(REPLAYS, "%s-%s-seed%d-%d" % (self.pid, self.tier, SEED, n))
        os.makedirs(d, exist_ok=True)
        with open(os.path.join(d, "violation.json"), "w") as f:
            json.dump({"property": self.pid, "signature": signature, "description": description,
                       "payload": payload, "seed": SEED, "tier": self.tier}, f, indent=1, default=str)
        return d

    def problem(self, msg):
        self.problems.append(msg)
        log("[machinery] " + msg)

    def finish(self):
        wall = time.time() - self.t0
        cov = {
            "evaluations": int(self.evaluations),
            "distinct_nontrivial": int(self.nontrivial),
            "rule": self.rule,
            "samples": self.samples[:8] or ["(none)"],
            "states": int(self.states),
            "transitions": int(self.transitions),
            "traces_validated_against_impl": int(self.traces),
        }
        if self.exhaustive is not None:
            cov["exhaustive"] = bool(self.exhaustive)
        cov.update(self.extra)
        cov["known_findings_hit"] = self.known_hit
        if self.problems:
            cov["machinery_problems"] = self.problems[:10]
        ev = {
            "property_id": self.pid,
            "tier": self.tier,
            "seed": SEED,
            "level": self.level,
            "coverage": cov,
            "assumptions": self.assumptions,
            "wall_s": round(wall, 2),
            "violations": len(self.violations),
        }
        os.makedirs(EVIDENCE, exist_ok=True)
        with open(os.path.join(EVIDENCE, self.pid + ".json"), "w") as f:
            json.dump(ev, f, indent=1, default=str)
        if self.violations:
            log("[%s] %d violation(s); evidence written; %.1fs" % (self.pid, len(self.violations), wall))
            return 1
        if self.problems:
            log("[%s] machinery problems, no verdict: %s" % (self.pid, "; ".join(self.problems)[:500]))
            return 2
        log("[%s] OK tier=%s seed=%d states=%d traces=%d evals=%d nontrivial=%d known=%s %.1fs" % (
            self.pid, self.tier, SEED, self.states, self.traces, self.evaluations, self.nontrivial,
            sum(self.known_hit.values()), wall))
        return 0


def write_ndjson(path, events):
    with open(path, "w") as f:
        for e in events:
            f.write(json.dumps(e, separators=(",", ":")))
            f.write("\n")


def read_ndjson(path):
    out = []
    with open(path) as f:
        for line in f:
            line = line.strip()
            if line:
                out.append(json.loads(line))
    return out


def parallel(fn, items, nthreads=None):
    """Run fn over items in threads (the work is in subprocesses); exceptions propagate."""
    from concurrent.futures import ThreadPoolExecutor
    with ThreadPoolExecutor(max_workers=nthreads or max(2, NCPU // 2)) as ex:
        return list(ex.map(fn, items))
