"""Regenerates /verif/MANIFEST.json from the table below (single source of truth for what is claimed)."""
import json
import os
import sys

VERIF = os.path.dirname(os.path.dirname(os.path.abspath(__file__)))

BASELINE_OFF = ("cd /repo && GOFLAGS=-mod=mod GOPROXY=off go test -json -vet=off -count=1 -timeout 25m ./...")

CHECKS = {
    "C14": dict(
        category="model_checking",
        text=("MemStore.tla is model-checked exhaustively (map-with-tombstones invariants, estimate arithmetic); every TLC-enumerated call "
              "sequence and seeded random programs are executed on the real memstore and every reply, Size, estimate, iteration and both "
              "flush outputs are judged by TLC against the specification (MemStoreTrace.tla)."),
        design_ref="§5 C14",
        note="trusts TLC, the harness' order-preserving byte concretizations and the table reader used to read flushed tables back",
        technique="TLA+ spec + TLC exhaustive check; TLC-generated behaviours replayed; trace validation of real replies by TLC",
    ),
}

NOT_YET = {}


def main():
    props = [json.loads(l) for l in open(os.path.join(VERIF, "properties.jsonl"))]
    checks = []
    na = []
    for p in props:
        pid = p["id"]
        if pid in CHECKS:
            c = CHECKS[pid]
            checks.append({
                "property_id": pid,
                "quick_cmd": "./check %s quick" % pid,
                "thorough_cmd": "./check %s thorough" % pid,
                "evidence_file": "/verif/evidence/%s.json" % pid,
                "replay_cmd_template": "./check %s --replay {path}" % pid,
                "engine": "vcheck",
                "level_claimed": {"category": c["category"], "text": c["text"], "design_ref": c["design_ref"]},
                "level_note": c["note"],
                "technique": c["technique"],
            })
        else:
            na.append({"property_id": pid, "reason": NOT_YET.get(pid, "check not built yet in this round; planned per DESIGN.md §5 (not a limitation of the technique)")})
    hooks_commits = []
    hc = os.path.join(VERIF, "hooks_commits.txt")
    if os.path.exists(hc):
        hooks_commits = [l.split()[0] for l in open(hc) if l.strip()]
    m = {
        "version": 1,
        "setup_cmd": "./setup.sh",
        "hooks": {
            "guard": "verif",
            "enable": "go build -tags verif (harness module /verif/harness with replace => /repo)",
            "baseline_off_cmd": BASELINE_OFF,
            "source_commits": hooks_commits,
            "add_only": True,
        },
        "engines": [{
            "name": "vcheck",
            "path": "/verif/check",
            "serves_properties": [c["property_id"] for c in checks],
            "kind_free_text": "python orchestrator: TLC (exhaustive + generation + trace judging) around Go drivers built from /repo with -tags verif",
        }],
        "checks": checks,
        "notes": "Model-based verification with explicit TLA+ specifications under /verif/spec; see DESIGN.md.",
        "not_applicable": na,
    }
    with open(os.path.join(VERIF, "MANIFEST.json"), "w") as f:
        json.dump(m, f, indent=1)
    print("MANIFEST.json: %d checks, %d not claimed" % (len(checks), len(na)))


if __name__ == "__main__":
    main()
