"""Regenerates /verif/MANIFEST.json from the table below (single source of truth for what is claimed)."""
import json
import os
import sys

VERIF = os.path.dirname(os.path.dirname(os.path.abspath(__file__)))

BASELINE_OFF = ("cd /repo && GOFLAGS=-mod=mod GOPROXY=off go test -json -vet=off -count=1 -timeout 25m ./...")

CHECKS = {
    "C01": dict(
        category="model_checking",
        text=("SimpleDB.tla (memstore pair, table list, generation, flusher, compactor with the code's selection rule, sessions with options) is "
              "model-checked exhaustively for ReadsLikeMap over every placement of rotation/flush/compaction/restart and option set; "
              "TLC-simulated behaviours are replayed on the real database and long seeded multi-session programs are recorded through "
              "the verif hooks; every execution is trace-validated by TLC against SimpleDBTrace.tla (every hook event must be the enabled "
              "specification step, every Get reply a value of the reference read, ReadsLikeMap in every state, background failures rejected)."),
        design_ref="§5 C01",
        note="trusts TLC, the hook placement (events emitted under the protecting lock) and the driver's projection of keys/values/paths",
        technique="TLA+ spec + TLC exhaustive check; TLC-generated behaviours replayed; white-box trace validation by TLC",
    ),
    "C02": dict(
        category="model_checking",
        text=("SimpleDBDisk.tla (WAL files, table and compaction directories, flusher, compactor, reflect, Crash in every state, recovery "
              "steps, Recover operator) is model-checked exhaustively for CrashSafe / StepProperty / ReadsLikeMap incl. crashes inside "
              "recovery; whole sessions of the real database run under strace -f and after every completed file-system-mutating syscall "
              "of any thread the directory image is rebuilt and the real Open + Get of every key runs on it; TLC (CrashJudge.tla) judges "
              "each crash point against the acknowledged / in-flight operations recorded in the same totally ordered log, validates the "
              "syscall sequence as enabled steps of the disk protocol (DiskProtoTrace.tla) and evaluates the specification's RecMap / OpenFails "
              "on the decoded content of every image, which must equal what the real recovery produced (DiskImageTrace.tla); after every "
              "recovery the session goes on (Put, regular flush, restart) and must keep what the recovery showed."),
        design_ref="§5 C02, §4.4",
        note="kill -9 model (completed syscalls persist, a syscall is atomic); needs ptrace; one schedule per recorded session",
        technique="TLA+ disk-protocol spec + TLC exhaustive crash exploration; strace crash-image enumeration of the real code judged by TLC",
    ),
    "C10": dict(
        category="model_checking",
        text=("SimpleDBDisk.tla keeps Crash enabled inside recovery (nested, MaxCrash=2) and requires the recoverable map to stay constant "
              "along recovery steps; on the real code the Open of representative level-1 crash images runs under strace, every syscall "
              "boundary inside it (plus other unlink orders inside RemoveAll) yields a level-2 image, the real recovery completes on each and "
              "TLC requires the map of the uninterrupted recovery, the recorded recovery to be enabled protocol steps, and the real result to "
              "equal the specification's RecMap on every decoded level-2 image (DiskImageTrace.tla); after every recovery the session goes on "
              "(Put, kill, regular flush, Put, kill, restart) and must keep what the recovery showed; sampled level-2 images (one per kind of "
              "interrupted recovery step in turn) are recovered under strace once more: every level-3 image must still recover to the map of the "
              "uninterrupted recovery (thorough: MaxCrash=3 exhaustively on the model, 120 level-2 images)."),
        design_ref="§5 C10",
        note="depth two at every syscall boundary of the representatives, depth three sampled; representatives chosen per abstract disk class (log files: empty / header / records / torn tail)",
        technique="TLA+ spec + TLC exhaustive nested crashes; nested strace crash-image enumeration judged by TLC",
    ),
    "C13": dict(
        category="model_checking",
        text=("SimpleDBDisk.tla with Async = TRUE (buffered appends reaching the file in arbitrary pieces, rotation writes the buffer out, a kill "
              "loses it) is model-checked for the prefix property incl. crashes inside recovery; as C02 with the asynchronous WAL: CrashJudge.tla requires the recovered map to equal the reference map after some prefix of "
              "the applied sequence that contains the last WAL rotation; sessions include > 4 MiB of incompressible log so that buffer "
              "flushes cut records, and 0 / 1 / many rotations; RecMap of the specification on every decoded image = real recovery."),
        design_ref="§5 C13",
        note="kill -9 model; applied order = order of the put/del hook events taken under the write lock",
        technique="TLA+ spec (prefix semantics) + strace crash-image enumeration of the real code judged by TLC",
    ),
    "C03": dict(
        category="model_checking",
        text=("SSTable.tla defines a table as a sorted map over key ranks with Contains/Get/Scan/ScanStartingAt/ScanRange operators (consistency "
              "checked exhaustively); TLC enumerates all 256 tables over ranks {1,3,5,7} x {value, EMPTY, NIL}; each is written through the "
              "stream or skip-list writer and read through all four index loaders with probes at every rank 0..8 and all 81 bounds under seeded "
              "compression pairs, bloom sizings, buffer sizes and 8 adversarial key encodings, plus seeded big tables; every reply judged by TLC."),
        design_ref="§5 C03",
        note="byte-level variety comes from enumerated/sampled concretization families, not from a proof; map loader gets an injective mapper",
        technique="TLA+ spec + TLC exhaustive small-scope enumeration; replay x concretizations; trace validation by TLC",
    ),
    "C08": dict(
        category="model_checking",
        text=("Merge.tla: TLC enumerates every list of 3 tables x 3 keys (19 683), 4 tables x 2 keys (6 561) and 2 x 2 with empty values, checking "
              "NewestWins / NoForeignValue / EachKeyOnceAscending / CompactIsScan; the lists are built as real tables (rank 0 = empty key in one "
              "family), the stacked reader is probed at every rank and bound, MergeCompact (both reductions) and plain Merge outputs are read "
              "back; seeded bigger lists; stacks whose oldest members sit behind a nested stacked reader (NestedOldestIsFlat) and member tables in the "
              "legacy version-0 layout; all judged by TLC on MergeTrace.tla."),
        design_ref="§5 C08",
        note="quick samples the 3x3 / 4x2 spaces, thorough replays all lists",
        technique="TLA+ spec + TLC exhaustive enumeration; replay on real tables; trace validation by TLC",
    ),
    "C11": dict(
        category="fault_enumeration",
        text=("For TLC-enumerated lists (Merge.tla) a single fault is placed at every record position of every input iterator and every write "
              "position of the output writer (plus sampled double faults) for MergeCompact, Merge and the stacked scan; memstore flushes run with "
              "the stream writer's inner writers failing at every position; at session level ENOSPC is injected by strace into every write(2) of "
              "a flush's output files and the compaction's writer fails inside the real executeCompaction; TLC judges FaultIsReported / "
              "NotInstalled on MergeTrace.tla and FaultTrace.tla."),
        design_ref="§5 C11",
        note="single faults exhaustive per sampled list; system-level injection needs ptrace; bloom-filter file failures only need to be harmless",
        technique="fault enumeration generated from the TLA+ spec's lists, outcomes judged by TLC against the spec's oracle",
    ),
    "C15": dict(
        category="model_checking",
        text=("SSTable.tla's writer (accept / reject / roll-back rule, metadata) is model-checked over all WriteNext sequences x faults; every "
              "TLC-enumerated sequence of depth 3 (sampled in quick) and simulated deeper ones are replayed through the real stream writer with "
              "its inner writers wrapped for fault injection, keys of varying length; replies, content, metadata and file sizes judged by TLC."),
        design_ref="§5 C15",
        note="faults are injected at the data-append / index-append step through the tag-guarded VerifWrapWriters hook",
        technique="TLA+ spec + TLC exhaustive check; TLC-generated sequences replayed with fault injection; trace validation by TLC",
    ),
    "C04": dict(
        category="model_checking",
        text=("RecordIO.tla: the file is the sequence of records surviving the writer program (Write/WriteSync/Seek/Close); offsets, size, skip = "
              "read+discard and SeekNext semantics are model-checked over all writer programs; every TLC-enumerated program (and simulated deeper "
              "ones) runs on the real writer under seeded compression types, buffer sizes and payload families (sizes around buffers and the "
              "4 KiB window, marker bytes, nil vs empty) and is read back sequentially, with read/skip programs, by offset and by SeekNext from "
              "every byte offset; long files, MiB payloads, direct-I/O writer; files laid out in the legacy format versions 1-3 (which the "
              "library only reads) are read the same way; every call sequence of depth 5 on one file writer / file reader / mmap reader in whatever phase it "
              "is in (LibLifecycle.tla): valid calls must work and the file must hold exactly the acknowledged writes; TLC judges every reply."),
        design_ref="§5 C04",
        note="payloads embedding a complete valid record are excluded (precondition of any marker-scanning SeekNext)",
        technique="TLA+ spec + TLC exhaustive check; TLC-generated writer programs replayed x concretizations; trace validation by TLC",
    ),
    "C12": dict(
        category="fault_enumeration",
        text=("For files generated from TLC-enumerated writer programs: every truncation length, every record-header byte x all 255 other "
              "values (reduced set on longer files) and out-of-range file-header fields; each damaged copy is read by the sequential reader to "
              "the end and by the random-access reader at every original offset; TLC judges against RecordIO.tla's CompleteToks / header-damage "
              "clauses (only completely contained records, in order; a damaged header never yields data); records above the readers' 512 KiB pool "
              "limit and files of the legacy versions 1-3 are cut as well."),
        design_ref="§5 C12",
        note="single-byte alterations only; a damaged header of the last record running into EOF may read as EOF (indistinguishable from a cut)",
        technique="fault enumeration over spec-generated files, outcomes judged by TLC against the TLA+ spec",
    ),
    "C07": dict(
        category="model_checking",
        text=("WAL.tla (numbered files, Append/AppendSync, forced and size-triggered Rotate, buffer flushes that may cut the last record, Crash) is "
              "model-checked for ReplayIsPrefix / SyncedSurvive / CleanReplayIsAll; WAL-only sessions of the real code run under strace, the image "
              "after every completed mutating syscall and after every returned call is replayed by the real replayer, and TLC (WALTrace.tla) "
              "requires a successful replay of a prefix containing every synced record, a write+fsync inside every AppendSync, and a complete "
              "replay of the closed log (file size limits below one record, records around / above the write buffer, 100+ files); the last "
              "file of the closed log is additionally cut at every byte offset near its head and tail (reachable with buffered appends): replay "
              "must succeed with a prefix that only grows with the file; an fsync(2) that is made to fail (EIO injected by strace) inside a "
              "synchronous append must be reported by that call."),
        design_ref="§5 C07",
        note="kill -9 model; single appender; needs ptrace",
        technique="TLA+ spec + TLC exhaustive check; strace crash-image enumeration of the real WAL judged by TLC",
    ),
    "C09": dict(
        category="fault_enumeration",
        text=("Generated tables under each compression type: every (sampled in quick) byte offset of data.rio x {8 bit flips, 00, FF, marker bytes}, "
              "every truncation length and record swaps; each damaged table is opened with verify-on-load and with verify-on-read under all four "
              "index loaders; Get of every key, full and range scans are judged by TLC against SSTable.tla's NeverDifferentValue."),
        design_ref="§5 C09",
        note="CRC-64 collisions not explored; empty/nil values (zero checksum by design) are only protected against header-detectable damage",
        technique="fault enumeration judged by TLC against the TLA+ spec",
    ),
    "C16": dict(
        category="model_checking",
        text=("SortedMapPQ.tla / PQList.tla: TLC enumerates every insertion order of every subset of 7 keys (13 700) and every list of ascending "
              "inputs over 4 keys, checking order independence, iterator consistency and MergeOk; the orders are replayed on the real skip list "
              "under int / string / bytes / magnitude-returning comparators with all probes and bounds (lower > upper rejected), seeded orders up "
              "to 10 000 keys, iterators that are open while further keys are inserted (LiveIterOk), and the lists are merged by the real heap; "
              "every reply judged by TLC."),
        design_ref="§5 C16",
        note="quick replays a seeded sample of the enumerated orders/lists, thorough all of them",
        technique="TLA+ spec + TLC exhaustive enumeration; replay; trace validation by TLC",
    ),
    "C18": dict(
        category="exploration",
        text=("Drivers built with -race run N in {2,4,16} goroutines x seeds x GOMAXPROCS in {1,2,4,16} against one DB handle, one table reader "
              "(default index loader) and one mmap RecordIO reader; race reports and panics are events no specification action matches; every "
              "reply is judged by TLC: database histories on SimpleDBTrace.tla + KVLinTrace.tla, concurrent table reads on SSTableTrace.tla, "
              "concurrent ReadNextAt/SeekNext on RecordIOTrace.tla (single-threaded answers); the lock discipline of SimpleDB.tla is "
              "model-checked over all interleavings (shared with C05)."),
        design_ref="§5 C18, §8",
        note="data-race freedom is the Go race detector's verdict on sampled executions; TLA+ decides the replies and the model's lock discipline",
        technique="race-detector exploration of real executions; replies trace-validated by TLC against the TLA+ specs",
    ),
    "C19": dict(
        category="model_checking",
        text=("Resources.tla (one WAL descriptor, one mapping per live table, flush +1, compaction -k+1, background compactor with separate merge "
              "and reflect steps, Close in four steps: lock, flusher joined, compactor joined, release) is model-checked, with a negative "
              "configuration for 'release before the compactor is joined', and its invariants are proved for ALL values of the constants by an "
              "inductive invariant (Apalache: base, step, implication, non-vacuity; TLAPS: 45 obligations); real sessions with hundreds of flush / compaction / open / close "
              "cycles (GC off), including Close calls gated to overlap a compaction between merge and reflect, drive the specification's "
              "actions through their hook events (ResTrace.tla: a step that is not enabled is rejected) and are observed at quiescent points "
              "through /proc/self/fd, /proc/self/maps and the goroutine dump: table count, mappings and descriptors equal the model's (manual "
              "compaction) or are bounded by live tables + 4 (background compaction); none and no module goroutine after Close - also when Close's "
              "own last flush is held for 33 s (Close must still be waiting) and when a directory with a torn WAL tail / an empty compaction "
              "marker is opened and closed in-process.  Library level: readers with every index loader, all 1 711 interleavings of up to three "
              "scanner life cycles enumerated by TLC from Scanners.tla, RecordIO readers / writers, WAL incl. torn tails."),
        design_ref="§5 C19",
        note="observations only outside a running compaction cycle (its private readers are bounded by the inputs); Linux /proc",
        technique="TLA+ spec + TLC exhaustive check + inductive invariant (Apalache, TLAPS); observations of real executions trace-validated by TLC",
    ),
    "C20": dict(
        category="translation_validation",
        text=("Per file written by the real writer (seeded record sequences incl. nil / empty, six payload families, four compression types) three "
              "observers - native sequential reader, Kaitai-generated reader, independent framing walk - are compared by TLC (KaitaiTrace.tla) "
              "against RecordIO.tla's StoredLen layout: same record count, nil flags, stored payload length and (after decompression) payload "
              "bytes; the schema's compression enum parsed from recordio_v4.ksy and the generated constants must carry the writer's codes."),
        design_ref="§5 C20",
        note="thin use of TLA+ (one layout function); the Kaitai payload is compared after decompressing it with the repository's compressor",
        technique="translation validation of three decoders against the TLA+ layout function, judged by TLC",
    ),
    "C05": dict(
        category="model_checking",
        text=("SimpleDB.tla with 2 clients, two-step Get, database lock, unbuffered hand-off, flusher and compactor is model-checked over all "
              "interleavings (GetLinearizable, NoLimboWhenUnlocked, ReadsLikeMap); real concurrent histories (4-8 goroutines, tiny memstores, "
              "background compaction, gate delays, GOMAXPROCS 1..16) are validated white-box against SimpleDBTrace.tla and black-box, per "
              "key, by KVLinTrace.tla where TLC searches a linearization of the recorded invocation/response pairs; complete schedules of the "
              "concurrent model simulated by TLC (GenSimpleDBConc.tla: which thread takes which step in which order) are executed on the real "
              "database by releasing its threads one step at a time through the gates - every model-enabled step must complete and every Get "
              "must reply what the model computed for that interleaving."),
        design_ref="§5 C05",
        note="exhaustive interleavings only on the model; on the real code: TLC-simulated schedules replayed through gates + sampled free-running histories; trusts hook placement for the white-box order",
        technique="TLA+ spec + TLC exhaustive interleavings; TLC-generated schedules replayed into the real code; white-box trace validation + black-box linearizability search by TLC",
    ),
    "C06": dict(
        category="model_checking",
        text=("Lineage.tla lets TLC enumerate every lineage of 2..3 tables over two keys (absent/value/tombstone, small/big) x 27 option "
              "sets and check that one compaction cycle of the design preserves all reads and selects a gap-free run; SimpleDB.tla checks "
              "the same as action properties under repeated cycles; the enumerated lineages are built on the real database and each "
              "compaction (selection recomputed from logged metadata, replacement slot, merged counts, reads before/after, later flush, "
              "second cycle, restart) is trace-validated by TLC."),
        design_ref="§5 C06",
        note="real table sizes are steered by value padding; a miss lowers coverage only because the selection is re-derived from logged metadata",
        technique="TLA+ spec + TLC exhaustive enumeration of lineages; replay on the real code; white-box trace validation by TLC",
    ),
    "C17": dict(
        category="model_checking",
        text=("SimpleDBApi.tla models the validation layer with the WAL as state (RejectedIsNoOp, RecoveryAgrees, SameVerdict) and is "
              "model-checked over all argument classes x flavours x observation actions; TLC-generated programs are replayed through both "
              "API flavours with non-UTF-8 / 70 KB / marker-like / empty keys, observed directly, after flush, after clean reopen and on "
              "crash images recovered by a separate process; sessions opened with the direct-I/O WAL (every mutation refused in synchronous "
              "mode: no effect now, after restart, after a crash; normal operation in asynchronous mode); all judged by TLC on SimpleDBTrace.tla."),
        design_ref="§5 C17",
        note="crash image = directory copied while the quiescent database is open; Delete/Get with empty keys only need to agree between flavours",
        technique="TLA+ spec + TLC exhaustive check; TLC-generated programs replayed; trace validation by TLC",
    ),
    "C14": dict(
        category="model_checking",
        text=("MemStore.tla is model-checked exhaustively (map-with-tombstones invariants, estimate arithmetic); every TLC-enumerated call "
              "sequence and seeded random programs are executed on the real memstore and every reply, Size, estimate, iteration and both "
              "flush outputs are judged by TLC against the specification (MemStoreTrace.tla)."),
        design_ref="§5 C14",
        note="trusts TLC, the harness' order-preserving byte concretizations and the table reader used to read flushed tables back",
        technique="TLA+ spec + TLC exhaustive check; TLC-generated behaviours replayed; trace validation of real replies by TLC",
    ),
}

NOT_YET = {}


def main():
    props = [json.loads(l) for l in open(os.path.join(VERIF, "properties.jsonl"))]
    checks = []
    na = []
    for p in props:
        pid = p["id"]
        if pid in CHECKS:
            c = CHECKS[pid]
            checks.append({
                "property_id": pid,
                "quick_cmd": "./check %s quick" % pid,
                "thorough_cmd": "./check %s thorough" % pid,
                "evidence_file": "/verif/evidence/%s.json" % pid,
                "replay_cmd_template": "./check %s --replay {path}" % pid,
                "engine": "vcheck",
                "level_claimed": {"category": c["category"], "text": c["text"], "design_ref": c["design_ref"]},
                "level_note": c["note"],
                "technique": c["technique"],
            })
        else:
            na.append({"property_id": pid, "reason": NOT_YET.get(pid, "check not built yet in this round; planned per DESIGN.md §5 (not a limitation of the technique)")})
    hooks_commits = []
    hc = os.path.join(VERIF, "hooks_commits.txt")
    if os.path.exists(hc):
        hooks_commits = [l.split()[0] for l in open(hc) if l.strip()]
    m = {
        "version": 1,
        "setup_cmd": "./setup.sh",
        "hooks": {
            "guard": "verif",
            "enable": "go build -tags verif (harness module /verif/harness with replace => /repo)",
            "baseline_off_cmd": BASELINE_OFF,
            "source_commits": hooks_commits,
            "add_only": True,
        },
        "engines": [{
            "name": "vcheck",
            "path": "/verif/check",
            "serves_properties": [c["property_id"] for c in checks],
            "kind_free_text": "python orchestrator: TLC (exhaustive + generation + trace judging) around Go drivers built from /repo with -tags verif",
        }],
        "checks": checks,
        "notes": "Model-based verification with explicit TLA+ specifications under /verif/spec; see DESIGN.md.",
        "not_applicable": na,
    }
    with open(os.path.join(VERIF, "MANIFEST.json"), "w") as f:
        json.dump(m, f, indent=1)
    print("MANIFEST.json: %d checks, %d not claimed" % (len(checks), len(na)))


if __name__ == "__main__":
    main()
