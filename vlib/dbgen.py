"""Program generators for the SimpleDB engines (driver 'db'): from TLC behaviours of SimpleDB.tla and seeded random sessions."""
import re

REPRESENTABLE_RATIOS = [0, 125, 250, 500, 750, 1000]   # per-mille values that are exact in float32


def parse_cfg(s):
    m = re.search(r"thr \|-> (\d+), maxSize \|-> (\d+), ratio \|-> (\d+)", s)
    return int(m.group(1)), int(m.group(2)), int(m.group(3))


class Uniq:
    def __init__(self, prefix="v"):
        self.n = 0
        self.prefix = prefix

    def next(self, base=""):
        self.n += 1
        return "%s%s_%d" % (self.prefix, base, self.n)


def open_step(thr, max_size, ratio, mem=1 << 30, bg=False, interval_us=1000, rbuf=0, wbuf=0):
    return {"op": "open", "mem": mem, "thr": thr, "maxSize": max_size, "ratio": ratio, "bg": bg, "interval_us": interval_us,
            "rbuf": rbuf, "wbuf": wbuf}


def model_size_to_bytes(ms, pad):
    """SimpleDB.tla measures tables in records; a flushed table of n records with our keys/values has roughly
    20 + n * (60 + pad) bytes.  0 -> nothing is 'small', 2 -> tables with one record are small, 100 -> everything."""
    if ms == 0:
        return 0
    if ms >= 100:
        return 1 << 30
    return 20 + (ms - 1) * (60 + pad) + (60 + pad) // 2 + 20


def beh_to_steps(beh, nkeys, pad=10, observe=True):
    """Sequential-schedule projection of a TLC behaviour (one client)."""
    u = Uniq()
    steps = []
    obs = {"op": "getall", "k": nkeys}
    for e in beh:
        a = e["a"]
        if a == "open":
            thr, ms, ratio = parse_cfg(e["v"])
            steps.append(open_step(thr, model_size_to_bytes(ms, pad), ratio))
        elif a == "put":
            steps.append({"op": "put", "k": e["k"], "v": u.next(e["v"]), "pad": pad})
        elif a == "putrotate":
            steps.append({"op": "put", "k": e["k"], "v": u.next(e["v"]), "pad": pad})
            steps.append({"op": "rotate"})
        elif a == "del":
            steps.append({"op": "del", "k": e["k"]})
        elif a == "get":
            steps.append({"op": "get", "k": e["k"]})
        elif a == "install":
            steps.append({"op": "barrier"})
        elif a == "compact":
            steps.append({"op": "barrier"})
            steps.append({"op": "compact"})
        elif a == "close":
            steps.append({"op": "close"})
        elif a == "handoff":
            continue
        else:
            raise ValueError(a)
        if observe and a in ("putrotate", "install", "compact", "open", "del", "put"):
            steps.append(obs)
    steps.append({"op": "barrier"})
    steps.append(obs)
    steps.append({"op": "close"})
    return steps


def beh_to_sched(beh, pad=10):
    """A behaviour of GenSimpleDBConc.tla (complete schedule of the concurrent model) as one case for the harness' schedule replay."""
    u = Uniq()
    thr, ms, ratio = parse_cfg(beh[0]["v"])
    sched = []
    for e in beh[1:]:
        st = {"a": e["a"], "c": e["c"], "k": e["k"], "v": "", "r": e.get("r", ""), "pad": pad}
        if e["a"] in ("put", "putrotate"):
            st["v"] = u.next(e["v"])
        sched.append(st)
    return [open_step(thr, model_size_to_bytes(ms, pad), ratio, mem=1 << 30, bg=False), {"op": "sched", "sched": sched},
            {"op": "barrier"}, {"op": "getall", "k": 2}, {"op": "close"}]


def random_session_program(rng, nkeys=12, nsessions=3, ops_per_session=300, bg=None, flavor_mix=False, hot=None, wal_modes=False):
    """Long program: sessions with fresh random options; overwrite / delete / re-put chains; reads interleaved."""
    u = Uniq()
    steps = []
    hot = hot or rng.sample(range(nkeys), max(2, nkeys // 3))
    for s in range(nsessions):
        pad = rng.choice([0, 10, 60, 300])
        mem = rng.choice([64, 200, 600, 2000, 1 << 20])
        thr = rng.choice([0, 1, 2, 3, 5, 12])
        ratio = rng.choice(REPRESENTABLE_RATIOS)
        max_size = rng.choice([0, 150, 400, 1200, 5000, 1 << 30])
        use_bg = rng.random() < 0.5 if bg is None else bg
        op = open_step(thr, max_size, ratio, mem=mem, bg=use_bg, interval_us=rng.choice([200, 1000, 3000]),
                       rbuf=rng.choice([0, 16, 64, 4096]), wbuf=rng.choice([0, 16, 64, 4096, 1 << 22]))
        if wal_modes and rng.random() < 0.4:
            # asynchronous WAL, with or without direct I/O: a clean Close / re-Open must not show any difference
            op["async"] = True
            if rng.random() < 0.5:
                op["directio"] = True
        steps.append(op)
        steps.append({"op": "getall", "k": nkeys})
        for i in range(ops_per_session):
            k = rng.choice(hot) if rng.random() < 0.7 else rng.randrange(nkeys)
            fl = rng.choice(["bytes", "string"]) if flavor_mix else "bytes"
            x = rng.random()
            if x < 0.45:
                steps.append({"op": "put", "k": k, "v": u.next(), "pad": pad if rng.random() < 0.8 else rng.choice([0, 500]), "flavor": fl})
            elif x < 0.65:
                steps.append({"op": "del", "k": k, "flavor": fl})
            elif x < 0.93:
                steps.append({"op": "get", "k": k, "flavor": fl})
            elif x < 0.96:
                steps.append({"op": "rotate"})
            elif x < 0.98 and not use_bg:
                steps.append({"op": "barrier"})
                steps.append({"op": "compact"})
                steps.append({"op": "getall", "k": nkeys})
            else:
                steps.append({"op": "getall", "k": nkeys})
        if not use_bg and rng.random() < 0.7:
            steps.append({"op": "barrier"})
            steps.append({"op": "compact"})
        steps.append({"op": "getall", "k": nkeys})
        steps.append({"op": "close"})
    return steps


def count_kinds(events):
    """coverage bookkeeping over a recorded trace"""
    c = {}
    for e in events:
        c[e["t"]] = c.get(e["t"], 0) + 1
    return c
