"""Shared runner for the 'merge' engine (C08, C11)."""
import os

import common
import concrete
import judge
from common import log


def tables_from_beh(beh, nkeys):
    """TLC prints a list of tables as [{rank: token}]; -> per table ascending [[rank, token]] without ABSENT"""
    out = []
    for t in beh:
        rows = [[k, t[str(k)]] for k in range(nkeys) if t[str(k)] != "ABSENT"]
        out.append(rows)
    return out


def run_batches(o, binary, batches, tag):
    def do(b):
        name, keys, vals, cases = b
        work = common.scratch("%s-%s" % (tag, name))
        trace = os.path.join(work, "trace.ndjson")
        judge.run_driver(binary, "merge", {"keys": concrete.hexkeys(keys), "vals": concrete.hexvals(vals), "dir": work, "cases": cases}, trace, timeout=900)
        return judge.judge_trace("MergeTrace.tla", "MergeTrace.cfg", trace, o, "judge " + name, heap="4g")

    res = common.parallel(do, batches)
    total = 0
    for (name, keys, vals, cases), (nok, bad, r) in zip(batches, res):
        total += len(cases)
        o.traces += len(cases)
        seen = set()
        for b in bad:
            case = b.get("case", -1)
            key = (b["clause"], case)
            if key in seen:
                continue
            seen.add(key)
            if len(seen) > 30:
                break
            c = cases[case] if 0 <= case < len(cases) else None
            o.report("merge/%s" % b["clause"], "batch %s case %s line %s clause %s: %s\n  tables: %s" % (
                name, case, b["line"], b["clause"], b.get("ev", "")[:500], str(c["tables"] if c else None)[:500]),
                {"batch": name, "keys": concrete.hexkeys(keys), "vals": concrete.hexvals(vals), "case": c})
        log("[%s] batch %-22s %5d cases, %7s replies accepted, %d rejected (%.1fs)" % (tag, name, len(cases), nok, len(bad), r.wall))
    return total


def replay_case(pid, path):
    import json
    v = json.load(open(os.path.join(path, "violation.json")))
    p = v["payload"]
    o = common.Outcome(pid, "quick", "model_checking")
    binary = common.build_harness()
    work = common.scratch("merge-replay")
    trace = os.path.join(work, "trace.ndjson")
    judge.run_driver(binary, "merge", {"keys": p["keys"], "vals": p["vals"], "dir": work, "cases": [p["case"]]}, trace)
    nok, bad, r = judge.judge_trace("MergeTrace.tla", "MergeTrace.cfg", trace, o, "replay")
    for b in bad:
        log("replay: line %s clause %s %s" % (b["line"], b["clause"], b.get("ev", "")[:300]))
    return 1 if bad else 0
