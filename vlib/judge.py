"""Generic pieces shared by the per-property checks: TLC behaviour generation, driver invocation, verdict-list judging."""
import json
import os
import random
import re

import common
from common import MachineryError, log


def gen_behaviours(module, cfg, timeout=600, workers=1, simulate=None, depth=None, seed=None, tag="BEH", outcome=None, what="gen"):
    """Run TLC on a generation config; collect the JSON payload of every PrintT(<<tag, ToJson(x)>>) line."""
    r = common.tlc(module, cfg, workers=workers, timeout=timeout, simulate=simulate, depth=depth, seed=seed)
    if r.error and not simulate:
        raise MachineryError("TLC generation %s/%s failed: %s" % (module, cfg, r.error))
    if r.violated:
        raise MachineryError("TLC generation %s/%s reported violation of %s" % (module, cfg, r.violated))
    out = []
    for line in r.prints:
        t, rest = common.parse_tla_print(line)
        if t == tag:
            out.append(json.loads(common.tla_unquote(rest)))
    if outcome is not None:
        outcome.add_tlc(r, what)
    return out, r


def model_check(module, cfg, outcome, what, timeout=900, workers=None, must_hold=True):
    """Exhaustive TLC run on the specification. A violation here is a defect of the *specification* (machinery), since
    verdicts about the code only come from conformance; report as a machinery problem."""
    r = common.tlc(module, cfg, workers=workers, timeout=timeout)
    outcome.add_tlc(r, what)
    if r.error:
        raise MachineryError("TLC %s/%s: %s" % (module, cfg, r.error))
    if must_hold and (r.violated or not r.ok):
        raise MachineryError("specification %s/%s violates %s - the intended design itself is inconsistent" % (module, cfg, r.violated))
    log("[tlc] %s %s: %d distinct / %d generated states, depth %d, %.1fs" % (module, cfg, r.distinct, r.generated, r.depth, r.wall))
    return r


def run_driver(binary, engine, inp, trace_path, timeout=600, extra_args=(), env=None):
    in_path = trace_path + ".in.json"
    with open(in_path, "w") as f:
        json.dump(inp, f)
    rc, out, err, to = common.run_proc([binary, engine, in_path, trace_path] + list(extra_args), timeout, env=env)
    if to:
        raise MachineryError("driver %s timed out after %ds" % (engine, timeout))
    if rc != 0:
        etxt = (err or b"").decode("utf-8", "replace")
        crash = common.go_crash_in_library(etxt) if rc == 2 else None
        if crash:
            raise common.CodeCrash(engine, crash, {"engine": engine, "input": in_path, "stderr": etxt[-1500:]})
        raise MachineryError("driver %s exited %s: %s" % (engine, rc, etxt[-3000:]))
    return (out or b"").decode("utf-8", "replace")


def judge_trace(module, cfg, trace_path, outcome, what, timeout=900, deque=False, heap="8g"):
    """Verdict-list judging: returns (nok, bad list). TLC invariants evaluated along the real trace must hold."""
    r = common.tlc(module, cfg, workers=1, timeout=timeout, env_extra={"TRACE": trace_path}, deque=deque, heap=heap)
    outcome.add_tlc(r, what)
    if r.error:
        raise MachineryError("TLC judge %s on %s: %s" % (module, trace_path, r.error))
    verdict = None
    for line in r.prints:
        t, rest = common.parse_tla_print(line)
        if t == "VERDICT":
            m = re.match(r"(\d+),\s*(\".*\")$", rest, re.S)
            verdict = (int(m.group(1)), json.loads(common.tla_unquote(m.group(2))))
    if r.violated:
        # an invariant of the specification was falsified by a state of the real execution
        return None, [{"case": -1, "line": r.depth, "clause": "invariant:" + r.violated, "expected": "", "got": r.out[-3000:]}], r
    if verdict is None:
        raise MachineryError("TLC judge %s printed no VERDICT (trace not consumed?)\n%s" % (module, r.out[-2000:]))
    return verdict[0], verdict[1], r


def inductive_proof(outcome, ind_module, proof_module, next_="NextU", cinit="ConstInit", safety="Safety", what="", apalache_too=True):
    """Unbounded safety of a small specification: the inductive invariant IndInv of <ind_module> is discharged symbolically by Apalache
    (Init => IndInv, IndInv /\\ Next => IndInv', IndInv => Safety) and the same argument is proved by the TLA+ proof system on <proof_module>.
    Any failure is a defect of the specification / proof (machinery), never a verdict about the code."""
    jobs = []
    if apalache_too:
        jobs += [("apalache base: Init => IndInv", lambda: common.apalache(ind_module, "Init", "IndInv", 0, next_, cinit)),
                 ("apalache step: IndInv /\\ Next => IndInv'", lambda: common.apalache(ind_module, "IndInit", "IndInv", 1, next_, cinit)),
                 ("apalache: IndInv => %s" % safety, lambda: common.apalache(ind_module, "IndInit", safety, 0, next_, cinit)),
                 # non-vacuity: the inductive invariant admits a state in which a compaction is under way while Close waits for it
                 ("apalache non-vacuity: IndInv is satisfiable in an interesting state", lambda: common.apalache(ind_module, "IndInit", "Vacuous", 0, next_, cinit))]
    jobs.append(("tlapm: %s" % proof_module, lambda: common.tlapm(proof_module)))
    res = common.parallel(lambda j: j[1](), jobs, nthreads=len(jobs))
    rec = []
    for (name, _), r in zip(jobs, res):
        if name.startswith("tlapm"):
            ok, nobl, w, tail = r
            rec.append({"what": name, "proved": ok, "obligations": nobl, "wall_s": round(w, 1)})
            if not ok:
                raise MachineryError("tlapm did not prove %s: %s" % (proof_module, tail))
        else:
            st, w, tail = r
            want = "violated" if "non-vacuity" in name else "ok"
            rec.append({"what": name, "outcome": st, "wall_s": round(w, 1)})
            if st != want:
                raise MachineryError("%s: expected %s, got %s: %s" % (name, want, st, tail))
    outcome.extra.setdefault("unbounded_proofs", []).append({"spec": what, "steps": rec})
    log("[proof] %s: %s" % (what, "; ".join("%s %.0fs" % (r["what"].split(":")[0], r["wall_s"]) for r in rec)))
    return rec
