"""Shared runner for the 'sst' engine (C03, C15): build cases, run the driver, judge with SSTableTrace.tla."""
import os

import common
import concrete
import judge
from common import log

LOADERS = ["slice", "skiplist", "map", "disk"]


def reader_cfgs(rng, n=5, loaders=None):
    """one reader per index loader: the DEFAULT one (no loader option at all - the first reader, the one the engine abandons now and then) and the four named ones"""
    out = []
    for ld in (loaders or ([""] + LOADERS))[:n]:
        out.append({"loader": ld, "rbuf": rng.choice([16, 64, 4096, 0]), "hash": rng.choice(["load", "read", "load"])})
    return out


def writer_cfg(rng, thorough_pairs=None):
    d, i = thorough_pairs if thorough_pairs else rng.choice([(2, 0), (0, 0), (1, 3), (3, 2), (2, 2)])
    bloom = rng.choice([0, 0, 1, 1000000])
    return {"dcomp": d, "icomp": i, "bloomn": bloom, "bloomfp": rng.choice([0, 0, 0.4, 0.05, 1e-9]), "wbuf": rng.choice([16, 4096, 1 << 22]), "writer": rng.choice(["stream", "stream", "skiplist"])}


def run_batches(o, binary, batches, tag, sigprefix="sst"):
    """batches: list of (name, keys(bytes list), vals(dict tok->bytes), cases). Returns (#cases, total nok)."""
    def do(b):
        name, keys, vals, cases = b
        work = common.scratch("%s-%s" % (tag, name))
        trace = os.path.join(work, "trace.ndjson")
        judge.run_driver(binary, "sst", {"keys": concrete.hexkeys(keys), "vals": concrete.hexvals(vals), "dir": work, "cases": cases}, trace, timeout=900)
        return judge.judge_trace("SSTableTrace.tla", "SSTableTrace.cfg", trace, o, "judge " + name, heap="4g")

    res = common.parallel(do, batches)
    total = 0
    for (name, keys, vals, cases), (nok, bad, r) in zip(batches, res):
        total += len(cases)
        o.traces += len(cases)
        seen = set()
        for b in bad:
            case = b.get("case", -1)
            c = cases[case] if 0 <= case < len(cases) else None
            sig = "%s/%s" % (sigprefix, b["clause"])
            key = (sig, case)
            if key in seen:
                continue
            seen.add(key)
            if len(seen) > 40:
                break
            o.report(sig, "batch %s case %s line %s clause %s: %s\n  case: %s" % (name, case, b["line"], b["clause"], b.get("ev", "")[:500], str(c)[:700]),
                     {"batch": name, "keys": concrete.hexkeys(keys), "vals": concrete.hexvals(vals), "case": c})
        log("[%s] batch %-26s %5d cases, %7s replies accepted, %d rejected (%.1fs)" % (tag, name, len(cases), nok, len(bad), r.wall))
    return total


def replay_case(pid, path):
    import json
    v = json.load(open(os.path.join(path, "violation.json")))
    p = v["payload"]
    o = common.Outcome(pid, "quick", "model_checking")
    binary = common.build_harness()
    work = common.scratch("sst-replay")
    trace = os.path.join(work, "trace.ndjson")
    judge.run_driver(binary, "sst", {"keys": p["keys"], "vals": p["vals"], "dir": work, "cases": [p["case"]]}, trace)
    nok, bad, r = judge.judge_trace("SSTableTrace.tla", "SSTableTrace.cfg", trace, o, "replay")
    for b in bad:
        log("replay: line %s clause %s %s" % (b["line"], b["clause"], b.get("ev", "")[:300]))
    return 1 if bad else 0
