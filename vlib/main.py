import importlib
import os
import sys
import traceback

sys.path.insert(0, os.path.dirname(os.path.abspath(__file__)))
import common  # noqa: E402


def main():
    if os.environ.get("VERIF_FAULTHANDLER"):
        # diagnosis of a stuck run: kill -USR1 <pid> prints the stack of every thread
        import faulthandler
        import signal
        faulthandler.register(signal.SIGUSR1, all_threads=True)
    if len(sys.argv) < 2:
        print("usage: check <Cxx> quick|thorough | check <Cxx> --replay <path> | check selftest")
        return 2
    pid = sys.argv[1]
    if pid == "selftest":
        import selftest
        return selftest.main(sys.argv[2:])
    tier = sys.argv[2] if len(sys.argv) > 2 else os.environ.get("VERIF_TIER", "quick")
    replay = None
    if tier == "--replay":
        replay = sys.argv[3]
        tier = "quick"
    try:
        mod = importlib.import_module("props." + pid.lower())
    except ImportError as e:
        print("no check for %s: %s" % (pid, e))
        return 2
    try:
        if replay:
            return mod.replay(replay)
        return mod.run(tier)
    except common.CodeCrash as e:
        # the library under test panicked (or dead-locked) inside a driver: that is a verdict, not a machinery problem
        o = common.Outcome(pid, tier, "other")
        o.report("crash/%s/%s" % (e.engine, e.msg), "driver %s: the code under test crashed: %s\n%s" % (e.engine, e.msg, e.payload.get("stderr", "")[-800:]), e.payload)
        return o.finish()
    except common.MachineryError as e:
        print("[machinery] %s" % e)
        return 2
    except Exception:
        traceback.print_exc()
        return 2


if __name__ == "__main__":
    sys.exit(main())
