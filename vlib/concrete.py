"""Concretization families: order-preserving maps from abstract key ranks / value tokens to adversarial bytes (DESIGN §1)."""
import random

MARKER = bytes([0x91, 0x8D, 0x4C])


def key_family(name, n, rng=None):
    """n keys in strictly ascending byte order; rank 0 is the smallest."""
    rng = rng or random.Random(0)
    if name == "be4":            # fixed width big endian, never empty
        ks = [(i + 1).to_bytes(4, "big") for i in range(n)]
    elif name == "empty0":       # rank 0 is the EMPTY key
        ks = [b""] + [(i).to_bytes(2, "big") for i in range(1, n)]
    elif name == "prefix":       # each key a prefix of the next one
        ks = [b"a" * (i + 1) for i in range(n)]
    elif name == "marker":       # keys containing the RecordIO record marker
        ks = [MARKER + bytes([i // 256, i % 256]) + MARKER[:2] for i in range(n)]
    elif name == "ascii":        # variable-length ascii
        ks = sorted({("key-%d-%s" % (i, "x" * rng.randrange(0, 40))).encode() for i in range(n * 2)})[:n]
    elif name == "nonutf8":
        ks = [bytes([0xFF, 0xFE, i // 256, i % 256, 0x00]) for i in range(n)]
    elif name == "long":         # hundreds of bytes
        ks = [bytes([i // 256, i % 256]) + bytes(rng.randrange(256) for _ in range(rng.randrange(100, 400))) for i in range(n)]
    elif name == "len128":       # key lengths around the one-byte varint boundary
        ks = [bytes([i // 256, i % 256]) + b"k" * (124 + (i % 4)) for i in range(n)]
    elif name == "longcomp":     # long, highly compressible keys (a compressed index stores them far shorter than they are)
        ks = [bytes([98 + (i // 256) % 20]) * (300 + 37 * (i % 9)) + bytes([i // 256, i % 256]) for i in range(n)]
        ks = sorted(ks)
    elif name == "medcomp":      # a distinct prefix followed by a compressible run (the compressed index record is somewhat shorter than the entry)
        ks = [b"key-%05d-" % i + b"k" * 120 for i in range(n)]
    elif name == "fix20":        # fixed 20-byte keys (the width of the library's Byte20KeyMapper), e.g. SHA-1 sized
        ks = sorted(bytes(rng.randrange(256) for _ in range(18)) + bytes([i // 256, i % 256]) for i in range(n))
        ks = [bytes([i // 256, i % 256]) + k[:18] for i, k in enumerate(ks)]
    elif name == "zerotail":     # short keys that differ only in trailing 0x00 bytes (any zero-padded fixed-width view of a key confuses them); rank 0 = EMPTY key
        ks = []
        b = 0
        while len(ks) < n:
            for z in range(4):
                ks.append((bytes([b]) if b else b"") + b"\x00" * z)
            b += 1
        ks = sorted(set(ks))[:n]
    elif name == "zerotail8":    # the same around 8 bytes (one machine word)
        ks = sorted({bytes([1 + i // 4]) * 6 + b"\x00" * (i % 4) for i in range(n + 4)})[:n]
    elif name == "biglast":      # last key of several KiB dominating the index
        ks = [(i + 1).to_bytes(4, "big") for i in range(n - 1)] + [b"\xff" * 6000]
    else:
        raise ValueError(name)
    assert len(ks) == n and all(ks[i] < ks[i + 1] for i in range(n - 1)), name
    return ks


def _crc32c(data):
    crc = 0xFFFFFFFF
    for b in data:
        crc ^= b
        for _ in range(8):
            crc = (crc >> 1) ^ (0x82F63B78 if crc & 1 else 0)
    return crc ^ 0xFFFFFFFF


def _uvarint(x):
    out = bytearray()
    while x >= 0x80:
        out.append((x & 0x7F) | 0x80)
        x >>= 7
    out.append(x)
    return bytes(out)


def embedded_record(payload):
    """a complete, valid RecordIO v4 record (marker, nil flag, lengths, header CRC-32C, payload) as it stands in an uncompressed file"""
    h = MARKER + b"\x00" + _uvarint(len(payload)) + _uvarint(0)
    return h + _uvarint(_crc32c(h)) + payload


def embedded_record_keys(n):
    """database keys that EMBED a valid record whose payload is itself a well-formed index entry (key 'zz', offset 8): anything that finds
    records in index.rio by scanning for markers meets a phantom entry inside the key"""
    entry = b"\x0a\x02zz\x10\x08"
    return [b"k%02d-" % i + embedded_record(entry) + b"-%d" % i for i in range(n)]


KEY_FAMILIES = ["be4", "empty0", "prefix", "marker", "ascii", "nonutf8", "long", "biglast", "fix20"]


def value_family(name, tokens, rng=None):
    """distinct byte strings for the value tokens; 'EMPTY' is always b''."""
    rng = rng or random.Random(0)
    out = {}
    for i, t in enumerate(tokens):
        if t == "EMPTY":
            out[t] = b""
            continue
        if name == "short":
            b = ("%s" % t).encode()
        elif name == "marker":
            b = MARKER + t.encode() + MARKER + bytes([0x91])
        elif name == "sized":    # differing lengths, one long
            b = t.encode() + bytes(rng.randrange(256) for _ in range([1, 7, 300, 5000][i % 4]))
        elif name == "zeros":
            b = t.encode() + b"\x00" * (10 + i)
        elif name == "huge":     # values above the 512 KiB buffer-pool limit of the record readers (and one above 1 MiB)
            n = [600 * 1024, 524288, 524289, 1200000][i % 4]
            b = (t.encode() + bytes(rng.randrange(256) for _ in range(64)) * (n // 64 + 1))[:n]
        elif name == "big40k":   # equal-length values of 40 KB (an overwrite fits the buffer of the value it replaces)
            b = (t.encode() + bytes([65 + i]) * 40960)[:40960]
        elif name == "varint":   # value lengths at the varint boundaries of the record header
            n = [127, 128, 16383, 16384][i % 4]
            b = (t.encode() + bytes(rng.randrange(256) for _ in range(n)))[:n]
        else:
            raise ValueError(name)
        out[t] = b
    assert len(set(out.values())) == len(out)
    return out


VALUE_FAMILIES = ["short", "marker", "sized", "zeros", "varint"]


def hexkeys(ks):
    return [k.hex() for k in ks]


def hexvals(vs):
    return {t: b.hex() for t, b in vs.items()}
