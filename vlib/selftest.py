"""./check selftest - the machinery checks itself (DESIGN §3, §7):
  1. vacuity / negative switches: every NEG_* configuration reproduces a defective design and TLC must answer with a counterexample;
  2. binding: one recorded field of a real trace is corrupted (and one hook event dropped) and the judge must reject the trace;
  3. every intended-design configuration used by the checks passes.
Exit 0 when the machinery behaves, 2 otherwise (never 1: nothing here is a verdict about go-sstables)."""
import json
import os
import random

import common
import dbgen
import dbrun
import judge
from common import log

NEGATIVE = [
    ("MCSimpleDB.tla", "NEG_SimpleDB_droptomb.cfg", "compaction always drops tombstones (S1)"),
    ("MCSimpleDB.tla", "NEG_SimpleDB_buffered.cfg", "hand-off does not wait for the flusher"),
    ("SimpleDBDisk.tla", "NEG_Disk_droptomb.cfg", "S1 on the disk protocol"),
    ("SimpleDBDisk.tla", "NEG_Disk_sizerotate.cfg", "size-triggered WAL rotation without flush (S11)"),
    ("SimpleDBDisk.tla", "NEG_Disk_walorder.cfg", "recovery unlinks WAL files in any order (S12)"),
    ("SimpleDBDisk.tla", "NEG_Disk_renamefirst.cfg", "recovery renames the merged table before all inputs are gone (repaired by 42e1cd1)"),
    ("SimpleDBDisk.tla", "NEG_Disk_asyncrotate.cfg", "asynchronous WAL: rotation drops the buffered appends"),
    ("SimpleDBDisk.tla", "NEG_Disk_rotateinflight.cfg", "a mutation rotates between its log append and its memstore update (seeded C02-4, C13-8)"),
    ("RefineKV.tla", "NEG_RefineKV_buffered.cfg", "refinement to the atomic map fails for the buffered hand-off"),
    ("Resources.tla", "NEG_Resources_release.cfg", "Close releases tables before the compactor is joined"),
    ("SimpleDBApi.tla", "NEG_SimpleDBApi.cfg", "PutBytes logs before validating (S5)"),
    ("Lineage.tla", "NEG_Lineage3.cfg", "lineages with always-dropped tombstones"),
]


def main(args):
    ok = True
    for mod, cfg, what in NEGATIVE:
        r = common.tlc(mod, cfg, timeout=900)
        good = bool(r.violated) and not r.error
        log("[selftest] negative %-28s %-45s -> %s (%d states, %.1fs)" % (cfg, what, "counterexample " + str(r.violated) if good else "NO COUNTEREXAMPLE", r.distinct, r.wall))
        ok = ok and good
    # the inductive invariant of ResourcesInd.tla must NOT be inductive for the defective Close order (release before the compactor is joined)
    st, w, tail = common.apalache("ResourcesInd.tla", "IndInit", "IndInv", 1, "NextU", "ConstInitNeg")
    log("[selftest] negative ResourcesInd.tla with ReleaseBeforeJoin = TRUE: inductive step -> %s (%.1fs)" % (st, w))
    ok = ok and st == "violated"
    # binding: a real white-box trace, then corrupt it
    binary = common.build_harness()
    rng = random.Random(7)
    prog = dbgen.random_session_program(rng, nkeys=6, nsessions=2, ops_per_session=80, bg=False)
    trace = dbrun.run_db_batch(binary, "selftest", [prog], seed=7)
    o = common.Outcome("SELFTEST", "quick", "other")
    nok, bad, r = dbrun.judge_db(trace, o, "pristine trace")
    log("[selftest] pristine trace: %s conforming steps, %d rejected" % (nok, len(bad)))
    ok = ok and not bad
    evs = common.read_ndjson(trace)
    # (a) corrupt the reply of one Get
    idx = [i for i, e in enumerate(evs) if e["t"] == "ret" and e.get("r", "").startswith("v")]
    if idx:
        c = list(evs)
        c[idx[len(idx) // 2]] = dict(c[idx[len(idx) // 2]], r="v_corrupted")
        p = trace + ".corrupt1"
        common.write_ndjson(p, c)
        _, bad1, _ = dbrun.judge_db(p, o, "corrupted get reply")
        log("[selftest] corrupted get reply -> %s" % ([b["clause"] for b in bad1] or "ACCEPTED"))
        ok = ok and any(b["clause"] == "get-reply" for b in bad1)
    # (b) drop one hook event (an install)
    idx = [i for i, e in enumerate(evs) if e["t"] == "install"]
    if idx:
        c = [e for i, e in enumerate(evs) if i != idx[0]]
        p = trace + ".corrupt2"
        common.write_ndjson(p, c)
        _, bad2, _ = dbrun.judge_db(p, o, "dropped install event")
        log("[selftest] dropped install hook event -> %s" % ([b["clause"] for b in bad2][:2] or "ACCEPTED"))
        ok = ok and bool(bad2)
    # (c) corrupt the metadata of a compaction candidate
    idx = [i for i, e in enumerate(evs) if e["t"] == "compact.candidates" and e["tables"]]
    if idx:
        c = json.loads(json.dumps(evs))
        c[idx[0]]["tables"][0]["nrec"] += 1
        p = trace + ".corrupt3"
        common.write_ndjson(p, c)
        _, bad3, _ = dbrun.judge_db(p, o, "corrupted candidate metadata")
        log("[selftest] corrupted candidate metadata -> %s" % ([b["clause"] for b in bad3][:2] or "ACCEPTED"))
        ok = ok and bool(bad3)
    # (d) resource trace specification: a session with manual compaction, then drop one install / one close.flusher line
    from props import c19
    steps = c19.session(random.Random(3), 40, bg=False)
    rtrace = dbrun.run_db_batch(binary, "selftest-res", [steps], seed=7, env={"GOGC": "off"})
    rl = [{"t": "reset", "case": "selftest"}] + c19.res_lines(common.read_ndjson(rtrace))
    for what, drop in (("pristine", None), ("dropped install", "install"), ("dropped close.flusher", "close.flusher")):
        c = list(rl)
        if drop:
            c.pop([i for i, e in enumerate(c) if e["t"] == drop][1])
        p = rtrace + ".res-" + (drop or "pristine")
        common.write_ndjson(p, c)
        rnok, rbad, _ = judge.judge_trace("ResTrace.tla", "ResTrace.cfg", p, o, "resource trace " + what)
        log("[selftest] resource trace, %s -> %s" % (what, [b["clause"] for b in rbad][:2] or "accepted (%s steps)" % rnok))
        ok = ok and (bool(rbad) if drop else not rbad)
    # (d2) object life cycles (LibLifecycle.tla): a pristine run, then one acknowledged record removed from a writer's final file content, then a
    #      deviation from the strict phase table that harms nothing (must be a note, not a verdict)
    lw = common.scratch("selftest-liblife")
    ltrace = os.path.join(lw, "trace.ndjson")
    lseqs = [{"kind": "fw", "ops": ["open", "write", "writesync", "close", "write"]}, {"kind": "fr", "ops": ["open", "read", "skip", "read", "read"]},
             {"kind": "mm", "ops": ["at2", "open", "seek0", "close", "close"]}]
    judge.run_driver(binary, "liblife", {"dir": lw, "seqs": lseqs}, ltrace)
    levs = common.read_ndjson(ltrace)
    for what, mut in (("pristine", None), ("lost acknowledged record", "final"), ("second Close succeeds", "reply")):
        c = json.loads(json.dumps(levs))
        if mut == "final":
            c[0]["final"] = c[0]["final"][:-1]
        elif mut == "reply":
            c[2]["calls"][4]["r"] = "ok"      # (the mmap reader's second Close does succeed: make it the file reader's sequence instead)
            c[1]["calls"] = [{"op": "open", "r": "ok"}, {"op": "close", "r": "ok"}, {"op": "close", "r": "ok"}]
        pth = ltrace + "." + (mut or "pristine")
        common.write_ndjson(pth, c)
        _, lbad, _ = judge.judge_trace("LibLifecycleTrace.tla", "LibLifecycleTrace.cfg", pth, o, "object life cycle " + what)
        verdicts = [b["clause"] for b in lbad if not b["clause"].startswith("note:")]
        notes = [b["clause"] for b in lbad if b["clause"].startswith("note:")]
        log("[selftest] object life cycles, %s -> verdicts %s, notes %s" % (what, verdicts or "none", notes or "none"))
        ok = ok and ((mut == "final") == bool(verdicts)) and ((mut == "reply") == bool(notes))
    # (e) judge unit test (Correction 14): two clients with the same delete in flight; only the stale read (idx 4) may be rejected
    here = os.path.dirname(os.path.abspath(__file__))
    _, cbad, _ = judge.judge_trace("CrashJudge.tla", "CrashJudge.cfg", os.path.join(here, "..", "spec", "tests", "crashjudge_two_deletes_in_flight.ndjson"), o, "crash judge unit test")
    got = [(b["idx"], b["clause"]) for b in cbad]
    log("[selftest] crash judge, two identical deletes in flight -> %s" % got)
    ok = ok and got == [(4, "acknowledged-write-lost-or-stale")]
    log("[selftest] %s" % ("OK" if ok else "FAILED"))
    return 0 if ok else 2
