"""C16 - skip-list map and merge heap behave as a sorted map and a sorted k-way merge.

spec:  SortedMapPQ.tla - set-of-keys semantics (OrderIndependent, IteratorsConsistent) over EVERY insertion order of every subset of 7 keys
       (13 700 orders); PQList.tla - every list of 3 (4 in thorough) ascending inputs over 4 keys with duplicates across inputs, MergeOk.
bind:  every TLC-enumerated insertion order is replayed on the real skip list under the int, string, bytes comparators and a magnitude-returning int comparator; size, Contains /
       Get at every rank -1..7, the full iterator, IteratorStartingAt at every rank and IteratorBetween over all bounds incl. lower > upper;
       seeded random orders up to 10 000 keys; every enumerated input list is merged by the real heap (with empty inputs).  TLC judges.
"""
import json
import os
import random

import common
import judge
from common import Outcome, SEED, log

PID = "C16"


def run(tier):
    o = Outcome(PID, tier, "model_checking")
    rng = random.Random(SEED)
    thorough = tier == "thorough"
    binary = common.build_harness()
    orders, _ = judge.gen_behaviours("SortedMapPQ.tla", "MC_SortedMap.cfg", workers=8, outcome=o, what="every insertion order of every subset of 7 keys")
    lists, _ = judge.gen_behaviours("PQList.tla", "MC_PQ4.cfg" if thorough else "MC_PQ3.cfg", workers=8, timeout=900, outcome=o,
                                    what="every list of ascending inputs over 4 keys")
    log("[C16] TLC enumerated %d insertion orders and %d input lists" % (len(orders), len(lists)))
    full = [x for x in orders if len(x) == 7]
    rest = [x for x in orders if len(x) < 7]
    rng.shuffle(full)
    rng.shuffle(rest)
    if not thorough:
        full, rest = full[:900], rest[:500]
    probes = list(range(-1, 8))
    ranges = [[lo, hi] for lo in probes for hi in probes]
    cases = []
    for i, ordr in enumerate(full + rest):
        c = {"kind": "skiplist", "cmp": ["int", "string", "bytes", "intdiff", "bytesle"][i % 5], "inserts": ordr, "probes": probes, "ranges": ranges}
        if i % 2 == 0:
            # an iterator that is open while the keys missing from the order (and keys beyond both ends) are inserted
            lo = rng.randrange(0, 7)
            late = [k for k in range(-1, 9) if k not in ordr]
            rng.shuffle(late)
            c["live"] = {"kind": ["between", "from", "all", "between"][(i // 2) % 4], "lo": lo, "hi": rng.randrange(lo, 8), "pre": rng.choice([0, 0, 1, 2]),
                         "late": late[:rng.randrange(1, len(late) + 1)]}
        cases.append(c)
    # random big orders
    for n in ([100, 1000, 10000] if thorough else [100, 2000]):
        ks = rng.sample(range(0, n * 3), n)
        pr = rng.sample(range(-1, n * 3 + 1), 40)
        cases.append({"kind": "skiplist", "cmp": rng.choice(["int", "string", "bytes", "bytesle"]), "inserts": ks, "probes": pr,
                      "ranges": [[rng.randrange(n * 3), rng.randrange(n * 3)] for _ in range(20)]})
    rng.shuffle(lists)
    pql = lists if thorough else lists[:3000]
    for lst in pql:
        cases.append({"kind": "pq", "inputs": lst, "cmp": "intdiff" if len(cases) % 2 else "int"})
    # more inputs than keys, longer inputs
    for _ in range(200 if thorough else 40):
        k = rng.randrange(0, 9)
        cases.append({"kind": "pq", "inputs": [sorted(rng.sample(range(30), rng.randrange(0, 12))) for _ in range(k)]})
    # many live inputs (the heap gets deep: 5 .. 64 non-empty inputs), short and long, with duplicates across inputs
    for i in range(400 if thorough else 120):
        k = 5 + (i % 28) if i % 3 else rng.randrange(29, 65)
        span = rng.choice([k, 3 * k, 200])
        cases.append({"kind": "pq", "inputs": [sorted(rng.sample(range(span + 8), rng.randrange(1, 7))) for _ in range(k)],
                      "cmp": "intdiff" if i % 2 else "int"})
    nb = 12
    batches = [cases[i::nb] for i in range(nb)]

    def do(args):
        i, cs = args
        work = common.scratch("C16-%d" % i)
        trace = os.path.join(work, "trace.ndjson")
        judge.run_driver(binary, "sorted", {"cases": cs}, trace, timeout=900)
        return judge.judge_trace("SortedMapPQTrace.tla", "SortedMapPQTrace.cfg", trace, o, "judge batch %d" % i, heap="4g")

    res = common.parallel(do, list(enumerate(batches)))
    for (i, cs), (nok, bad, r) in zip(enumerate(batches), res):
        seen = set()
        for b in bad:
            case = b.get("case", -1)
            if (b["clause"], case) in seen or len(seen) > 20:
                continue
            seen.add((b["clause"], case))
            o.report("sorted/%s" % b["clause"], "batch %d case %s line %s clause %s: %s\n  case: %s" % (i, case, b["line"], b["clause"], b.get("ev", "")[:500],
                     str(cs[case])[:400] if 0 <= case < len(cs) else ""), {"case": cs[case] if 0 <= case < len(cs) else None})
        log("[C16] batch %2d %5d cases, %7s replies accepted, %d rejected (%.1fs)" % (i, len(cs), nok, len(bad), r.wall))
    o.traces = len(cases)
    o.evaluations = len(cases)
    o.nontrivial = len(full) + len(rest) + len(pql)
    o.exhaustive = bool(thorough)
    o.rule = ("cases = TLC-enumerated insertion orders (all 5 040 permutations of 7 keys + all orders of smaller subsets in thorough, a seeded sample in "
              "quick) under three comparators with all probes/bounds, seeded big random orders, and TLC-enumerated lists of ascending inputs for "
              "the heap; distinct by order / list")
    o.sample({"order": full[0], "pq": pql[0]})
    o.assumptions = ["rank encodings for string / bytes keys are order preserving (fixed width)"]
    return o.finish()


def replay(path):
    v = json.load(open(os.path.join(path, "violation.json")))
    o = Outcome(PID, "quick", "model_checking")
    binary = common.build_harness()
    work = common.scratch("C16-replay")
    trace = os.path.join(work, "trace.ndjson")
    judge.run_driver(binary, "sorted", {"cases": [v["payload"]["case"]]}, trace)
    nok, bad, r = judge.judge_trace("SortedMapPQTrace.tla", "SortedMapPQTrace.cfg", trace, o, "replay")
    return 1 if bad else 0
