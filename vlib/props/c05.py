"""C05 - concurrent Get/Put/Delete are linearizable while flushes and compactions run.

spec:  SimpleDB.tla with 2 clients, two-step Get, database lock, unbuffered hand-off, flusher, compactor (MC_SimpleDB_conc):
       GetLinearizable, NoLimboWhenUnlocked, ReadsLikeMap over all interleavings at lock / channel grain.
bind:  deterministic gate-driven interleavings (install between the two reads of a Get; reflect attempted while a Get holds the read lock;
       second rotation / a Get attempted while the first flush is running) with the disabledness test, and
       real histories of 4-8 goroutines over 8 keys with unique values, tiny memstores, background compaction every 0.2-1 ms,
       seeded delays at the scheduling gates, several GOMAXPROCS values;
       (a) white-box: hook events judged by SimpleDBTrace.tla (every rotation / hand-off / install / reflect must be the enabled step,
           every Get reply a value of the reference read while the call was pending),
       (b) black-box: inv/ret pairs only, projected per key, judged by KVLinTrace.tla (TLC searches a linearization).
"""
import json
import os
import random

import common
import dbgen
import dbrun
import judge
from common import Outcome, SEED, log
from props.c01 import signature

PID = "C05"


def conc_case(rng, nclients, nops, nkeys=8):
    u = dbgen.Uniq()
    steps = [dbgen.open_step(rng.choice([0, 1, 2]), rng.choice([200, 1000, 1 << 30]), rng.choice(dbgen.REPRESENTABLE_RATIOS),
                             mem=rng.choice([100, 200, 400]), bg=True, interval_us=rng.choice([200, 500, 1000]),
                             rbuf=rng.choice([0, 64, 4096]), wbuf=rng.choice([0, 64, 4096]))]
    clients = []
    for c in range(nclients):
        prog = []
        for _ in range(nops):
            k = rng.randrange(nkeys) if rng.random() < 0.5 else rng.randrange(2)
            x = rng.random()
            if x < 0.40:
                prog.append({"op": "put", "k": k, "v": u.next("c%d" % c), "pad": rng.choice([0, 20, 60])})
            elif x < 0.55:
                prog.append({"op": "del", "k": k})
            else:
                prog.append({"op": "get", "k": k})
        clients.append(prog)
    steps.append({"op": "par", "clients": clients})
    steps.append({"op": "getall", "k": nkeys})
    steps.append({"op": "close"})
    return steps


def run(tier):
    o = Outcome(PID, tier, "model_checking")
    rng = random.Random(SEED)
    thorough = tier == "thorough"
    binary = common.build_harness()

    judge.model_check("MCSimpleDB.tla", "MC_SimpleDB_conc_big.cfg" if thorough else "MC_SimpleDB_conc.cfg", o,
                      "exhaustive: 2 clients x all interleavings at lock/channel grain", timeout=2400)

    if thorough:
        judge.model_check("RefineKV.tla", "MC_RefineKV.cfg", o, "refinement: every step of the concurrent model is a step of the atomic map (KVStore) or leaves it unchanged",
                          timeout=2400)
    nhist = 64 if thorough else 16
    batches = []
    for i in range(nhist):
        case = conc_case(rng, rng.choice([4, 6, 8]), rng.choice([150, 300]) if not thorough else rng.choice([300, 600]))
        if i % 3 == 2:
            case[0] = dict(case[0], **{"async": True})     # every third history on the asynchronous log
        batches.append(("h%d" % i, case, {"GOMAXPROCS": str([1, 2, 4, 16][i % 4])}))

    # a memstore of tens of MiB: its flush takes long enough for readers to run between every two steps of the flusher (table written, log file
    # removed, table opened, table installed) - the store must stay readable until its table is installed
    for i in range(3 if thorough else 1):
        u = dbgen.Uniq()
        w = [{"op": "put", "k": j, "v": u.next("w"), "pad": 5500000} for j in range(7)] + [{"op": "put", "k": 7, "v": u.next("w"), "pad": 10} for j in range(30)]   # the 7th Put rotates
        rd = [[x for _ in range(1500) for x in ({"op": "get", "k": rng.randrange(8)}, {"op": "sleep", "us": 400})] for _ in range(3)]   # about a second of polling
        batches.append(("bigstore%d" % i, [dbgen.open_step(2, 1 << 30, 1000, mem=34 << 20, bg=True, interval_us=1000), {"op": "par", "clients": [w] + rd},
                                           {"op": "getall", "k": 8}, {"op": "close"}], {"GOMAXPROCS": "16"}))

    def do(b):
        name, case, env = b
        trace = dbrun.run_db_batch(binary, "C05-" + name, [case], gates=not name.startswith("bigstore"), seed=SEED + len(name), env=env, timeout=240)
        nok, bad, r = dbrun.judge_db(trace, o, "white-box " + name)
        lin = trace + ".lin"
        index = dbrun.project_per_key(trace, lin)
        acc, hw, total = dbrun.judge_lin(lin, o, "black-box " + name)
        return trace, nok, bad, r, acc, hw, total, index

    res = common.parallel(do, batches)
    # deterministic interleavings through the scheduling gates: the distinguishing schedules of the concurrent model, incl. the
    # disabledness test (a step the specification does not enable is attempted and must stay blocked)
    wcases = []
    for w in ["install-between-reads", "reflect-while-get", "second-rotation-waits"]:
        wcases.append([dbgen.open_step(1, 1 << 30, 1000, mem=1 << 30, bg=False), {"op": "window", "v": w}, {"op": "barrier"}, {"op": "getall", "k": 3}, {"op": "close"}])
    for gmp in (["1", "4", "16"] if not thorough else ["1", "2", "4", "16"] * 3):
        wtrace = dbrun.run_db_batch(binary, "C05-windows-%s" % gmp, wcases, seed=SEED, env={"GOMAXPROCS": gmp}, timeout=120)
        wnok, wbad, wr = dbrun.judge_db(wtrace, o, "gate-driven interleavings GOMAXPROCS=" + gmp)
        wevs = common.read_ndjson(wtrace)
        nblocked = sum(1 for e in wevs if e["t"] == "blocked")
        landed = any(e["t"] == "note" and "install landed between the two reads: true" in e.get("name", "") for e in wevs)
        for b in wbad[:5]:
            o.report(signature(b), "gate-driven interleaving (GOMAXPROCS=%s) line %s clause %s\n  event: %s\n  context:\n    %s" % (
                gmp, b["line"], b["clause"], b.get("ev", "")[:300], "\n    ".join(dbrun.context(wtrace, b["line"])[-10:])),
                {"steps": wcases[b.get("case", 0)] if 0 <= b.get("case", 0) < 3 else None, "gates": False, "clause": b["clause"], "env": {"GOMAXPROCS": gmp}})
        o.traces += 3
        log("[C05] gate-driven interleavings GOMAXPROCS=%-2s: %s conforming steps, %d rejected, %d disabledness assertions, install-between-reads reached: %s" % (
            gmp, wnok, len(wbad), nblocked, landed))
        if nblocked < 3 or not landed:
            o.problem("gate-driven interleavings were not reached (blocked assertions %d, install between reads %s)" % (nblocked, landed))
    # schedule replay (spec -> impl): complete schedules of the concurrent model, simulated by TLC from GenSimpleDBConc.tla, are executed
    # on the real database thread by thread through the gates; every Get must reply what the model computed for that interleaving
    sbehs, _ = judge.gen_behaviours("GenSimpleDBConc.tla", "Gen_SimpleDB_conc.cfg", simulate="num=%d" % (3000 if thorough else 500), depth=60,
                                    seed=SEED, outcome=o, what="TLC-simulated schedules of the concurrent model")
    suniq = list({json.dumps(b["h"]): b for b in sbehs}.values())
    rng.shuffle(suniq)
    suniq.sort(key=lambda b: not b["ov"])           # schedules in which threads really overlap first
    suniq = suniq[: (1200 if thorough else 160)]
    # transition cover of the concurrent model (CoverSimpleDBConc.tla): one shortest schedule per abstract transition (who is where, who holds the lock,
    # flusher / compactor stage, which layer answers each key; thread + step); prefixes dropped; schedules with overlapping threads first
    cov, _ = judge.gen_behaviours("CoverSimpleDBConc.tla", "Cover_SimpleDB_conc_t.cfg" if thorough else "Cover_SimpleDB_conc_q.cfg", workers=1, tag="COV",
                                  timeout=3000, outcome=o, what="transition cover of the concurrent model (one schedule per abstract transition)")
    cpaths = {tuple(json.dumps(e, sort_keys=True) for e in b["h"]): b["ov"] for b in cov}
    cprefix = {p[:i] for p in cpaths for i in range(1, len(p))}
    ckeep = sorted((p for p in cpaths if p not in cprefix), key=lambda p: (not cpaths[p], p))
    ncover_all = len(ckeep)
    if not thorough:
        ckeep = [p for p in ckeep if cpaths[p]] + [p for p in ckeep if not cpaths[p]][::4]
    suniq += [{"h": [json.loads(e) for e in p], "ov": cpaths[p]} for p in ckeep]
    log("[C05] transition cover of the concurrent model: %d abstract transitions, %d schedules after dropping prefixes, %d replayed" % (len(cov), ncover_all, len(ckeep)))
    o.extra["transition_cover_concurrent"] = {"abstract_transitions": len(cov), "schedules": ncover_all, "replayed": len(ckeep)}
    scases = [dbgen.beh_to_sched(b["h"]) for b in suniq]
    nsb = 8
    sjobs = [("sched-%d" % i, scases[i::nsb], {"GOMAXPROCS": str([1, 2, 4, 16][i % 4])}) for i in range(nsb) if scases[i::nsb]]

    def dosched(j):
        name, cases, env = j
        trace = dbrun.run_db_batch(binary, "C05-" + name, cases, seed=SEED, env=env, timeout=900)
        nok, bad, r = dbrun.judge_db(trace, o, "schedule replay " + name)
        return trace, nok, bad, r

    nsget = nsteps = ncompleted = 0
    for (name, cases, env), (trace, nok, bad, r) in zip(sjobs, common.parallel(dosched, sjobs, nthreads=4)):
        evs = common.read_ndjson(trace)
        nsget += sum(1 for e in evs if e["t"] == "schedget")
        nsteps += sum(e["steps"] for e in evs if e["t"] == "scheddone")
        ncompleted += sum(e["completed"] for e in evs if e["t"] == "scheddone")
        o.traces += len(cases)
        for b in bad[:5]:
            case = b.get("case", -1)
            o.report(signature(b), "schedule replay %s (GOMAXPROCS=%s) case %s line %s clause %s\n  event: %s\n  context:\n    %s" % (
                name, env["GOMAXPROCS"], case, b["line"], b["clause"], b.get("ev", "")[:400], "\n    ".join(dbrun.context(trace, b["line"])[-14:])),
                {"steps": cases[case] if 0 <= case < len(cases) else None, "gates": False, "clause": b["clause"], "env": env})
        log("[C05] %-8s GOMAXPROCS=%-2s %3d schedules: %s conforming steps, %d rejected" % (name, env["GOMAXPROCS"], len(cases), nok, len(bad)))
    o.extra["replayed_schedules"] = len(scases)
    o.extra["replayed_schedules_with_overlap"] = sum(1 for b in suniq if b["ov"])
    o.extra["schedule_steps_completed"] = "%d/%d" % (ncompleted, nsteps)
    o.extra["schedule_get_replies_equal_to_model"] = nsget
    if scases and (nsget == 0 or ncompleted < nsteps):
        o.problem("schedule replay incomplete: %d Get replies compared, %d of %d steps completed" % (nsget, ncompleted, nsteps))
    kinds = {}
    ncalls = 0
    for (name, case, env), (trace, nok, bad, r, acc, hw, total, index) in zip(batches, res):
        evs = common.read_ndjson(trace)
        for k, v in dbgen.count_kinds(evs).items():
            kinds[k] = kinds.get(k, 0) + v
        ncalls += sum(1 for e in evs if e["t"] == "inv")
        o.traces += 1
        for b in bad[:5]:
            ctx = dbrun.context(trace, b["line"])
            o.report(signature(b), "history %s (GOMAXPROCS=%s) line %s clause %s\n  event: %s\n  context:\n    %s" % (
                name, env["GOMAXPROCS"], b["line"], b["clause"], b.get("ev", "")[:400], "\n    ".join(ctx[-12:])),
                {"steps": case, "gates": True, "clause": b["clause"], "env": env})
        if not acc:
            # find the per-key case that contains line hw
            pos, which = 0, None
            for key, n in index:
                pos += n + 1
                if hw <= pos:
                    which = key
                    break
            o.report("kvlin/not-linearizable", "history %s: black-box per-key history of key %s has no linearization (stuck at line %d of %d)" % (
                name, which, hw, total), {"steps": case, "gates": True, "env": env})
        log("[C05] %-4s GOMAXPROCS=%-2s %6d events: white-box %s ok / %d rejected; black-box %s" % (
            name, env["GOMAXPROCS"], len(evs), nok, len(bad), "linearizable" if acc else "REJECTED at %d" % hw))
    o.evaluations = ncalls
    o.nontrivial = nhist
    o.extra["event_kinds"] = kinds
    o.extra["client_calls"] = ncalls
    o.rule = ("evaluations = client calls in recorded concurrent histories; a history is non-trivial when it contains rotations, installs "
              "and compaction reflects concurrent with client calls (checked: event_kinds); distinct by seed")
    o.sample({"history": batches[0][0], "first_client_ops": batches[0][1][1]["clients"][0][:10]})
    if kinds.get("install", 0) < nhist or kinds.get("reflect.done", 0) == 0:
        o.problem("vacuous run: histories without flush installs / compaction reflects (%s)" % {k: kinds.get(k, 0) for k in ("install", "reflect.done", "rotate")})
    o.assumptions = ["schedules on the real code are sampled (gates, seeds, GOMAXPROCS); TLC is exhaustive on the model only",
                     "white-box: write order is the order of the put/del hook events taken under the database write lock"]
    return o.finish()


def replay(path):
    v = json.load(open(os.path.join(path, "violation.json")))
    p = v["payload"]
    o = Outcome(PID, "quick", "model_checking")
    binary = common.build_harness()
    rc = 0
    for i in range(5):
        trace = dbrun.run_db_batch(binary, "replay%d" % i, [p["steps"]], gates=True, seed=v.get("seed", 1) + i, env=p.get("env"))
        nok, bad, r = dbrun.judge_db(trace, o, "replay")
        lin = trace + ".lin"
        dbrun.project_per_key(trace, lin)
        acc, hw, total = dbrun.judge_lin(lin, o, "replay black-box")
        log("replay attempt %d: %d rejected white-box, black-box %s" % (i, len(bad), acc))
        if bad or not acc:
            rc = 1
    return rc
