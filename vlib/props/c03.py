"""C03 - an SSTable returns exactly what was written, for every index type and option.

spec:  SSTable.tla - table = sorted map over key ranks; Contains / Get / Scan / ScanStartingAt / ScanRange operators; ReadsConsistent
       checked exhaustively over all accepted-write sequences.  TLC enumerates all 256 tables over the odd ranks {1,3,5,7} x value
       classes {value, EMPTY, NIL}.
bind:  every enumerated table is written through the stream writer or the skip-list writer and read through all four index loaders with
       probes at every rank 0..8 (below minimum, between, present, above maximum) and every (lo, hi) pair incl. lo > hi, under seeded
       compression pairs, bloom sizings, buffer sizes and adversarial key encodings (empty key, marker bytes, prefix keys, a huge last
       key); plus seeded big tables (hundreds to thousands of keys).  Every reply is judged by TLC on SSTableTrace.tla.
"""
import json
import random

import common
import concrete
import judge
import sstrun
from common import Outcome, SEED, log

PID = "C03"
NR = 9


def key_families(rng):
    fams = {}
    for name in ["be4", "empty0", "prefix", "marker", "ascii", "nonutf8", "long", "len128", "fix20", "zerotail", "zerotail8"]:
        fams[name] = concrete.key_family(name, NR, rng)
    ks = concrete.key_family("be4", NR, rng)
    ks[7] = b"\xff" * 6000          # the last WRITTEN key dominates index.rio
    ks[8] = b"\xff" * 6001
    fams["hugelast"] = ks
    return fams


def run(tier):
    o = Outcome(PID, tier, "model_checking")
    rng = random.Random(SEED)
    thorough = tier == "thorough"
    binary = common.build_harness()
    judge.model_check("SSTable.tla", "MC_SSTable.cfg", o, "exhaustive: write sequences x read-operator consistency")
    behs, _ = judge.gen_behaviours("SSTable.tla", "Gen_SSTable_tables.cfg", outcome=o, what="TLC enumeration of tables over ranks {1,3,5,7}")
    tables = {}
    for b in behs:
        acc = tuple((h["k"], h["v"]) for h in b if h["r"] == "ok")
        tables[acc] = 1
    tables = sorted(tables)
    log("[C03] %d distinct tables enumerated by TLC" % len(tables))
    fams = key_families(rng)
    vals_tok = ["vA", "EMPTY"]
    probes = list(range(NR))
    ranges = [[lo, hi] for lo in range(NR) for hi in range(NR)]
    batches = []
    famnames = list(fams)
    rounds = 8 if thorough else 1
    pairs = [(d, i) for d in range(4) for i in range(4)]
    for rd in range(rounds):
        nb = len(famnames)            # every key family in every round
        for bi in range(nb):
            fam = famnames[(bi + rd) % len(famnames)]
            vf = concrete.VALUE_FAMILIES[(bi + rd + 1) % len(concrete.VALUE_FAMILIES)]
            cases = []
            for ti, acc in enumerate(tables):
                if ti % nb != bi:
                    continue
                w = sstrun.writer_cfg(rng, pairs[(ti + rd) % 16] if thorough else None)
                if fam in ("hugelast", "long", "len128") and len(cases) % 2 == 0:
                    w["bloomn"] = 1000000    # a roomy filter: a key hashed differently by writer and reader is then reported absent, not masked
                # every third case: the same content in the legacy (version 0) table layout the readers still accept (applies to tables of plain values)
                cases.append(dict(w, writes=[{"k": k, "v": v, "fault": ""} for k, v in acc], readers=sstrun.reader_cfgs(rng), probes=probes, ranges=ranges,
                                  v0=(len(cases) % 3 == 2)))
            batches.append(("tlc-%s-%d-%d" % (fam, rd, bi), fams[fam], concrete.value_family(vf, vals_tok, rng), cases))
    # big seeded tables
    nbig = 12 if thorough else 3
    for i in range(nbig):
        n = rng.choice([200, 1000, 3000]) if i else 5000
        fam = rng.choice(["be4", "ascii", "nonutf8", "empty0", "marker"])
        keys = concrete.key_family(fam, n, rng)
        written = sorted(rng.sample(range(n), rng.randrange(n // 3, n)))
        vt = ["vA", "vB", "vC", "EMPTY"]
        pr = sorted(set(rng.sample(range(n), 60) + [0, 1, n - 2, n - 1, written[0], written[-1]]))
        rg = [[rng.randrange(n), rng.randrange(n)] for _ in range(40)] + [[written[0], written[-1]], [0, n - 1], [written[-1], written[-1]], [n - 1, 0]]
        w = sstrun.writer_cfg(rng)
        w["writer"] = "stream"
        cases = [dict(w, writes=[{"k": k, "v": rng.choice(vt + ["NIL"]), "fault": ""} for k in written], readers=sstrun.reader_cfgs(rng), probes=pr, ranges=rg)]
        batches.append(("big%d-%s-%d" % (i, fam, n), keys, concrete.value_family(rng.choice(concrete.VALUE_FAMILIES), vt, rng), cases))
    # tables with values above the 512 KiB buffer-pool limit of the record readers, uncompressed and compressed
    for i, (dc, ic) in enumerate([(0, 0), (2, 2)] if not thorough else [(0, 0), (2, 2), (1, 3), (3, 1)]):
        keys = concrete.key_family("be4", 6, rng)
        vt = ["vA", "vB", "vC", "vD"]
        w = dict(sstrun.writer_cfg(rng), dcomp=dc, icomp=ic, writer="stream")
        cases = [dict(w, writes=[{"k": k, "v": (vt + ["NIL", "EMPTY"])[k % 6], "fault": ""} for k in range(6)], readers=sstrun.reader_cfgs(rng),
                      probes=list(range(6)), ranges=[[0, 5], [1, 3], [2, 2]])]
        batches.append(("hugevals-%d" % i, keys, concrete.value_family("huge", vt + ["EMPTY"], rng), cases))
    # a key in the MIDDLE of the table whose index record ends around the 4 KiB scan window of the record seeker (and around other power-of-two
    # windows in the thorough tier): the record behind it starts at every offset relative to a window end once
    sweeps = [range(4030, 4111)] + ([range(960, 1041), range(1990, 2071), range(8130, 8211)] if thorough else [])
    for si, sw in enumerate(sweeps):
        cases, vt = [], ["vA", "vB"]
        w = dict(sstrun.writer_cfg(rng), dcomp=0, icomp=0, writer="stream")
        for L in sw:
            cases.append(dict(w, writes=[{"k": k, "v": vt[k % 2], "fault": ""} for k in (1, 3, 5, 7)], readers=sstrun.reader_cfgs(rng), probes=probes,
                              ranges=[[0, 8], [3, 5], [4, 8], [5, 5]], keylen={"3": L}))
        batches.append(("window-%d" % si, concrete.key_family("be4", NR, rng), concrete.value_family(concrete.VALUE_FAMILIES[0], vt, rng), cases))
    # long, compressible keys in the MIDDLE of a table under a COMPRESSED index: the stored index record is far shorter than the entry it holds
    cases, vt = [], ["vA", "vB"]
    for icomp in (1, 2, 3):
        for L in (4100, 4500, 6000, 9000, 20000):
            w = dict(sstrun.writer_cfg(rng), dcomp=rng.choice([0, 2]), icomp=icomp, writer="stream")
            cases.append(dict(w, writes=[{"k": k, "v": vt[k % 2], "fault": ""} for k in (1, 3, 4, 5, 7)], readers=sstrun.reader_cfgs(rng), probes=probes,
                              ranges=[[0, 8], [3, 5], [4, 8], [5, 5]], keylen={"3": L, "4": L + 7}))
    batches.append(("longmid-compressed-index", concrete.key_family("be4", NR, rng), concrete.value_family(concrete.VALUE_FAMILIES[0], vt, rng), cases))
    # ... and the same inside tables of several hundred keys (the index goes on for many KiB behind the long entry)
    for icomp in ((1, 2, 3) if thorough else (2,)):
        n = 600
        keys = concrete.key_family("be4", n, rng)
        vt4 = ["vA", "vB", "vC"]
        pr = sorted(set(rng.sample(range(n), 40) + [0, 4, 5, 6, 7, 299, 300, 301, n - 1]))
        w = dict(sstrun.writer_cfg(rng), dcomp=0, icomp=icomp, writer="stream")
        case = dict(w, writes=[{"k": k, "v": vt4[k % 3], "fault": ""} for k in range(n)], readers=sstrun.reader_cfgs(rng), probes=pr,
                    ranges=[[0, n - 1], [3, 40], [5, 5], [250, 400], [300, 300]], keylen={"5": 4300, "300": 6000})
        batches.append(("longmid-big-%d" % icomp, keys, concrete.value_family(concrete.VALUE_FAMILIES[0], vt4, rng), [case]))
    total = sstrun.run_batches(o, binary, batches, "C03")
    o.evaluations = total
    o.nontrivial = len(tables) - 1 + nbig
    o.rule = ("cases = all 256 tables TLC enumerates over ranks {1,3,5,7} x {value, EMPTY, NIL} (non-trivial: non-empty), each written with a seeded "
              "writer configuration and read through the four index loaders with all rank probes and all 81 (lo,hi) bounds, under 8 key "
              "encodings; plus seeded big tables; distinct by table content")
    o.sample({"table": tables[len(tables) // 2], "probes": probes, "ranges": "all (lo,hi) in 0..8"})
    o.assumptions = ["rank order = byte order of the concretized keys (asserted)", "the map index loader is given an injective string mapper by the harness"]
    return o.finish()


def replay(path):
    return sstrun.replay_case(PID, path)
