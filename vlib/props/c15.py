"""C15 - a table holds exactly the accepted writes, ascending, with truthful metadata.

spec:  SSTable.tla writer: WriteNext(rank, value, fault) accept / reject / roll-back rule; TableIsAcceptedWrites, RejectedOrFailedIsNoOp,
       MetaTruthful checked exhaustively over all write sequences (ranks with repeats and descents) x faults at the data / index append.
bind:  every TLC-enumerated WriteNext sequence (depth 3 all / sampled; deeper ones simulated) is replayed through the real stream writer with
       the two inner writers wrapped for fault injection (verif hook), keys of varying length, several compression and buffer settings;
       after Close the table is reopened and replies, content (scan), metadata (count, nil count, min, max) and file sizes are judged by
       TLC on SSTableTrace.tla.
"""
import json
import random

import common
import concrete
import judge
import sstrun
from common import Outcome, SEED, log

PID = "C15"


def run(tier):
    o = Outcome(PID, tier, "model_checking")
    rng = random.Random(SEED)
    thorough = tier == "thorough"
    binary = common.build_harness()
    judge.model_check("SSTable.tla", "MC_SSTable.cfg", o, "exhaustive: WriteNext sequences x faults")
    behs, _ = judge.gen_behaviours("SSTable.tla", "Gen_SSTable.cfg", outcome=o, what="all WriteNext sequences of depth 3 (4 ranks x 3 values x 3 faults)")
    deep, _ = judge.gen_behaviours("SSTable.tla", "Sim_SSTable.cfg", simulate="num=%d" % (3000 if thorough else 500), depth=8, seed=SEED,
                                   outcome=o, what="simulated sequences of depth 6")
    rng.shuffle(behs)
    if not thorough:
        behs = behs[:4000]
    seqs = behs + deep
    log("[C15] %d enumerated + %d simulated write sequences from TLC" % (len(behs), len(deep)))
    fams = ["prefix", "ascii", "empty0", "be4", "marker", "long"]
    nb = 12 if thorough else 6
    batches = []
    for bi in range(nb):
        fam = fams[bi % len(fams)]
        keys = concrete.key_family(fam, 5, rng)
        vals = concrete.value_family(concrete.VALUE_FAMILIES[bi % 4], ["vA", "EMPTY"], rng)
        cases = []
        for ci, s in enumerate(seqs[bi::nb]):
            w = sstrun.writer_cfg(rng)
            w["writer"] = "stream"
            # with lower-case ascii keys: every fourth case runs writer and readers under a case-insensitive comparator and offers either
            # spelling of a key - "not strictly greater" is a statement about the comparator, not about the bytes
            nocase = fam == "ascii" and ci % 4 == 0
            cases.append(dict(w, writes=[{"k": h["k"], "v": h["v"], "fault": h["fault"], "alt": nocase and rng.random() < 0.5} for h in s],
                              readers=[{"loader": ("skiplist" if nocase else rng.choice(sstrun.LOADERS)), "rbuf": rng.choice([16, 4096]), "hash": "load"}],
                              probes=[0, 1, 2, 3], ranges=[[0, 3]], cmp="nocase" if nocase else ("mag" if ci % 4 == 1 else "")))
        batches.append(("%s-%d" % (fam, bi), keys, vals, cases))
    total = sstrun.run_batches(o, binary, batches, "C15")
    o.evaluations = total
    o.nontrivial = sum(1 for s in seqs if any(h["r"] != "ok" for h in s))
    o.rule = ("cases = TLC-enumerated WriteNext sequences (all of depth 3, sampled in quick; simulated depth 6) replayed with fault injection; "
              "non-trivial = contains a rejected or I/O-failed write; distinct by sequence")
    o.sample({"sequence": seqs[0]})
    o.assumptions = ["I/O failures are injected at the data-append / index-append step through the verif hook VerifWrapWriters"]
    return o.finish()


def replay(path):
    return sstrun.replay_case(PID, path)
