"""C06 - compaction never changes what a key reads as; deleted keys stay deleted; the selection is a gap-free run.

spec:  Lineage.tla - TLC enumerates every lineage of 2..3 tables over two keys (absent / value / tombstone per key, small / big) x
       27 option sets and checks CompactPreservesReads + GapFree for the design's selection rule / floodFill / merge / splice;
       SimpleDB.tla (MC_SimpleDB_seq) checks the same as action properties under repeated cycles interleaved with flushes + restart.
bind:  the TLC-enumerated lineages on which a compaction happens are built for real (value padding steers TotalBytes across the
       max size), compaction cycles are run with VerifCompactOnce, a later flush, a further cycle and a restart follow; every
       execution is judged by TLC on SimpleDBTrace.tla: selection recomputed from the logged metadata and required to be a gap-free
       run, replacement = oldest input, merged table counts, reads unchanged by the reflect, every Get reply.
"""
import json
import os
import random

import common
import dbgen
import dbrun
import judge
from common import Outcome, SEED, log
from props.c01 import run_batches

PID = "C06"
BIG_PAD, MID_BYTES = 400, 250


def lineage_steps(lin):
    cfg = lin["cfg"]
    ms = {0: 0, 5: MID_BYTES, 100: 1 << 30}[cfg["maxSize"]]
    u = dbgen.Uniq()
    nk = 2
    steps = [dbgen.open_step(cfg["thr"], ms, cfg["ratio"])]
    for i, t in enumerate(lin["tabs"]):
        for k in range(nk):
            c = t[str(k)] if isinstance(t, dict) else t[k]
            if c == "val":
                steps.append({"op": "put", "k": k, "v": u.next("t%d" % (i + 1)), "pad": BIG_PAD if lin["big"][i] else 0})
            elif c == "tomb":
                steps.append({"op": "del", "k": k})
        steps += [{"op": "rotate"}, {"op": "barrier"}]
    obs = {"op": "getall", "k": nk + 1}
    if lin.get("exact"):
        # exact-equality probe: reopen with the max size set to exactly (or one byte around) the size of one of the tables
        i, delta = lin["exact"]
        steps += [{"op": "close"}, dict(dbgen.open_step(cfg["thr"], ms, cfg["ratio"]), exactof=i, delta=delta)]
    if lin.get("restart_first"):
        # the restart comes directly after the compaction (nothing is flushed in between): the next table's generation number is derived from what the
        # compaction left on disk; that table must survive the restart after it
        steps += [obs, {"op": "compact"}, obs, {"op": "close"}, dbgen.open_step(cfg["thr"], ms, cfg["ratio"]), obs,
                  {"op": "put", "k": 2, "v": u.next("late"), "pad": 0}, {"op": "put", "k": 0, "v": u.next("late"), "pad": 0}, {"op": "rotate"}, {"op": "barrier"}, obs,
                  {"op": "close"}, dbgen.open_step(cfg["thr"], ms, cfg["ratio"]), obs, {"op": "del", "k": 1}, {"op": "rotate"}, {"op": "barrier"}, obs, {"op": "close"},
                  dbgen.open_step(cfg["thr"], ms, cfg["ratio"]), obs, {"op": "compact"}, obs, {"op": "close"}]
        return steps
    steps += [obs, {"op": "compact"}, obs, {"op": "compact"}, obs,
              {"op": "put", "k": 2, "v": u.next("late"), "pad": 0}, {"op": "rotate"}, {"op": "barrier"}, {"op": "compact"}, obs, {"op": "close"},
              dbgen.open_step(cfg["thr"], ms, cfg["ratio"]), obs, {"op": "compact"}, obs, {"op": "close"}]
    return steps


def run(tier):
    o = Outcome(PID, tier, "model_checking")
    rng = random.Random(SEED)
    thorough = tier == "thorough"
    binary = common.build_harness()

    lins2, r2 = judge.gen_behaviours("Lineage.tla", "MC_Lineage2.cfg", workers=8, outcome=o, what="all lineages of 2 tables x 27 option sets")
    log("[C06] Lineage NT=2: %d initial states checked, %d with a compaction" % (r2.distinct // 2, len(lins2)))
    lins3, r3 = judge.gen_behaviours("Lineage.tla", "MC_Lineage3.cfg", workers=8, timeout=900, outcome=o, what="all lineages of 3 tables x 27 option sets")
    log("[C06] Lineage NT=3: %d initial states checked, %d with a compaction" % (r3.distinct // 2, len(lins3)))
    if thorough:
        judge.model_check("MCSimpleDB.tla", "MC_SimpleDB_seq_big.cfg", o, "repeated cycles interleaved with flushes and restart", timeout=1800)
    else:
        judge.model_check("MCSimpleDB.tla", "MC_SimpleDB_seq.cfg", o, "repeated cycles interleaved with flushes and restart")

    excl = [l for l in lins3 if l["oldestExcluded"]]
    rest = [l for l in lins3 if not l["oldestExcluded"]]
    rng.shuffle(excl)
    rng.shuffle(rest)
    n3 = 12000 if thorough else 900
    chosen = list(lins2) + excl[: n3 // 2] + rest[: n3 // 2]
    if not thorough:
        rng.shuffle(chosen)
        chosen = [l for l in chosen if l["oldestExcluded"]][:700] + [l for l in chosen if not l["oldestExcluded"]][:900]
    for n, l in enumerate(chosen):
        if n % 5 == 0:
            l["exact"] = [rng.randrange(1, len(l["tabs"]) + 1), rng.choice([-1, 0, 0, 1])]
        if n % 3 == 1:
            l["restart_first"] = True
    cases = [lineage_steps(l) for l in chosen]
    nb = 16
    batches = [("lin-%d" % i, cases[i::nb], False) for i in range(nb) if cases[i::nb]]
    # lineages whose generation numbers cross digit boundaries (8, 9, 10, ... 100+): every key is overwritten in every generation, then
    # everything is compacted at once (the order of the inputs decides which version survives), read, restarted, read
    for ngen in [12, 31, 104, 300]:
        u = dbgen.Uniq("g")
        st = [dbgen.open_step(500, 1 << 30, 1000, mem=1 << 30)]
        for i in range(ngen):
            st += [{"op": "put", "k": i % 3, "v": u.next(), "pad": 0}, {"op": "put", "k": 3, "v": u.next(), "pad": 0}]
            if i % 7 == 6:
                st.append({"op": "del", "k": (i + 1) % 3})
            st.append({"op": "rotate"})
        st += [{"op": "barrier"}, {"op": "getall", "k": 5}, {"op": "close"}, dbgen.open_step(1, 1 << 30, 1000), {"op": "getall", "k": 5}, {"op": "compact"},
               {"op": "getall", "k": 5}, {"op": "close"}, dbgen.open_step(1, 1 << 30, 1000), {"op": "getall", "k": 5}, {"op": "close"}]
        batches.append(("gens-%d" % ngen, [st], False))
    kinds = run_batches(o, binary, batches, "C06")
    o.evaluations = len(cases)
    o.nontrivial = len({json.dumps(l, sort_keys=True) for l in chosen})
    o.extra["event_kinds"] = kinds
    o.extra["lineages_oldest_excluded"] = sum(1 for l in chosen if l["oldestExcluded"])
    o.exhaustive = False
    o.rule = ("cases = TLC-enumerated lineages (Lineage.tla) on which the selection rule triggers a compaction; all of NT=2, a seeded sample "
              "of NT=3 with half of them excluding the oldest table; each built on the real database and followed by 4 compaction cycles, a "
              "flush and a restart; non-trivial = a compaction happens (all); distinct by lineage+options")
    o.sample({"lineage": chosen[0], "steps": cases[0][:12]})
    o.assumptions = ["real table sizes fall on the intended side of the max size (padding 400 B incompressible vs limit 250 B); the "
                     "selection is re-derived by TLC from the logged real metadata, so a miss only lowers coverage, never soundness"]
    if kinds.get("reflect.done", 0) < len(cases) // 2:
        o.problem("vacuous run: only %d reflects for %d lineages" % (kinds.get("reflect.done", 0), len(cases)))
    return o.finish()


def replay(path):
    from props import c01
    return c01.replay(path)
