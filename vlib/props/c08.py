"""C08 - merging or stacking tables equals the latest-wins union of their contents.

spec:  Merge.tla - TLC enumerates every list of 3 tables over 3 keys (19 683), of 4 tables over 2 keys (6 561) and of 2 tables over 2 keys
       with empty values (256), each cell absent / value_t / tombstone, and checks EachKeyOnceAscending, NewestWins, NoForeignValue,
       ScanIsGetOfLive, CompactIsScan.  Rank 0 is concretized as the EMPTY key in one family.
bind:  the enumerated lists are built as real tables; the stacked reader is probed with Get / Contains at every rank, the full scan,
       ScanStartingAt at every rank and ScanRange over all bounds; MergeCompact with both provided reductions and plain Merge (disjoint
       lists) write a real table that is read back; seeded bigger lists (up to 8 tables, 200 keys).  TLC judges on MergeTrace.tla.
"""
import json
import random

import common
import concrete
import judge
import mergerun
from common import Outcome, SEED, log

PID = "C08"


def disjoint(tabs):
    seen = set()
    for t in tabs:
        for k, _ in t:
            if k in seen:
                return False
            seen.add(k)
    return True


LOADERS = ["", "disk", "disk-shared", "skiplist", "map", "disk-shared"]


def make_case(tabs, nkeys, super_=True, loader="", shape=0):
    faults = [{"kind": "compact-latest", "input": -1, "inpos": -1, "outpos": -1}, {"kind": "compact-skiptomb", "input": -1, "inpos": -1, "outpos": -1}]
    if disjoint(tabs):
        faults.append({"kind": "merge", "input": -1, "inpos": -1, "outpos": -1})
    c = {"tables": tabs, "probes": list(range(nkeys)), "ranges": [[lo, hi] for lo in range(nkeys) for hi in range(nkeys)], "faults": faults, "super": super_, "loader": loader}
    # shapes of the stack (Merge.tla NestedOldestIsFlat): the oldest tables behind a stacked reader of their own; members in the legacy (version 0) layout
    if shape % 5 == 1 and len(tabs) >= 2:
        c["nest"] = "left"
    elif shape % 5 == 2 and tabs:
        c["v0"] = [shape // 5 % len(tabs)]
    elif shape % 5 == 3 and len(tabs) >= 2:
        c["nest"] = "left"
        c["v0"] = [shape // 5 % len(tabs)]
    elif shape % 5 == 4:
        c["emptyat"] = shape // 5 % (len(tabs) + 1)     # the library's EmptySStableReader as one more member of the stack
    return c


def run(tier):
    o = Outcome(PID, tier, "model_checking")
    rng = random.Random(SEED)
    thorough = tier == "thorough"
    binary = common.build_harness()
    lists = []
    for cfg, nk, what in [("MC_Merge3.cfg", 3, "3 tables x 3 keys"), ("MC_Merge4.cfg", 2, "4 tables x 2 keys"), ("MC_Merge2e.cfg", 2, "2 tables x 2 keys with empty values"),
                          ("MC_Merge1e.cfg", 3, "1 table x 3 keys with empty values (a merge of ONE table must still apply the reduction)")]:
        behs, r = judge.gen_behaviours("Merge.tla", cfg, workers=8, outcome=o, what="all lists: " + what)
        lists.append((nk, behs))
        log("[C08] TLC enumerated %d lists (%s)" % (len(behs), what))
    batches = []
    fams = ["empty0", "be4", "marker", "prefix", "zerotail"]
    n3 = None if thorough else 1600
    n4 = None if thorough else 600
    chosen = []
    for (nk, behs), cap in zip(lists, [n3, n4, None, None]):
        b = list(behs)
        rng.shuffle(b)
        chosen.append((nk, b[:cap] if cap else b))
    nb = 16 if thorough else 8
    total_lists = 0
    for nk, behs in chosen:
        total_lists += len(behs)
        for bi in range(nb):
            fam = fams[bi % len(fams)]
            keys = concrete.key_family(fam, nk, rng)
            vals = concrete.value_family(concrete.VALUE_FAMILIES[bi % 4], ["v1", "v2", "v3", "v4"], rng)
            cases = [make_case(mergerun.tables_from_beh(b, nk), nk, loader=LOADERS[(bi + ci) % len(LOADERS)], shape=ci // 2 + bi) for ci, b in enumerate(behs[bi::nb])]
            if cases:
                batches.append(("%s-k%d-%d" % (fam, nk, bi), keys, vals, cases))
        # under a comparator for which different byte strings are the same key (case-insensitive; every other table spells its keys in upper case)
        lk = [b"key-%c" % (97 + i) for i in range(nk)]
        ncases = [dict(make_case(mergerun.tables_from_beh(b, nk), nk), cmp="nocase") for b in behs[:(3000 if thorough else 150)]]
        batches.append(("nocase-k%d" % nk, lk, concrete.value_family(concrete.VALUE_FAMILIES[0], ["v1", "v2", "v3", "v4"], rng), ncases))
    # C09 through a stack: one member's data file damaged (a byte of every value), all members verifying every read - the stacked Get answers
    # with an error or the newest value as written, never with an older table's value
    nk3, behs3 = chosen[0]
    dcases = []
    for ci, b in enumerate(behs3[:(1500 if thorough else 240)]):
        tabs = mergerun.tables_from_beh(b, nk3)
        if len(tabs) >= 2 and any(tabs):
            dcases.append({"tables": tabs, "probes": list(range(nk3)), "ranges": [], "faults": [], "super": True, "loader": LOADERS[ci % len(LOADERS)], "damage": ci % len(tabs)})
    batches.append(("damage-under-stack", concrete.key_family("be4", nk3, rng), concrete.value_family(concrete.VALUE_FAMILIES[0], ["v1", "v2", "v3", "v4"], rng), dcases))
    # seeded bigger lists
    nbig = 30 if thorough else 9
    for i in range(nbig):
        nk = rng.choice([20, 60, 200])
        nt = rng.randrange(2, 9) if i % 3 else [70, 1, 33, 9, 16][(i // 3) % 5]   # one table; more tables than a small heap holds; more than 64
        keys = concrete.key_family(rng.choice(["empty0", "be4", "ascii", "nonutf8"]), nk, rng)
        toks = ["v%d" % (t + 1) for t in range(nt)]
        vals = concrete.value_family(rng.choice(concrete.VALUE_FAMILIES), toks, rng)
        tabs = []
        for t in range(nt):
            ks = sorted(rng.sample(range(nk), rng.randrange(0, nk)))
            tabs.append([[k, "NIL" if rng.random() < 0.25 else toks[t]] for k in ks])
        pr = sorted(set(rng.sample(range(nk), min(nk, 15)) + [0, nk - 1]))
        case = {"tables": tabs, "probes": pr, "ranges": [[rng.randrange(nk), rng.randrange(nk)] for _ in range(25)] + [[0, nk - 1], [0, 0]],
                "faults": [{"kind": "compact-latest", "input": -1, "inpos": -1, "outpos": -1}, {"kind": "compact-skiptomb", "input": -1, "inpos": -1, "outpos": -1}],
                "super": True, "loader": LOADERS[i % len(LOADERS)]}
        if i % 3 == 1 and nt >= 2:
            case["nest"] = "left"
        if i % 4 == 2:
            case["v0"] = sorted(set(rng.sample(range(nt), min(nt, 2))))
        batches.append(("big-%d" % i, keys, vals, [case]))
    total = mergerun.run_batches(o, binary, batches, "C08")
    o.evaluations = total
    o.nontrivial = total_lists + nbig
    o.exhaustive = bool(thorough)
    o.rule = ("cases = lists of tables enumerated by TLC from Merge.tla (all in thorough; seeded sample of the 3x3 and 4x2 spaces in quick, all 256 "
              "lists with empty values), each probed through the stacked reader at every rank / bound and merged with both reductions; plus seeded "
              "bigger lists; distinct by list content")
    o.sample({"list": chosen[0][1][0]})
    o.assumptions = ["values are unique per table so a value identifies its source table", "rank 0 is the EMPTY key in the empty0 family"]
    return o.finish()


def replay(path):
    return mergerun.replay_case(PID, path)
