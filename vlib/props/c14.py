"""C14 - the memstore behaves as a map with tombstones and flushes to an equal table.

spec:   MemStore.tla (exhaustive: invariants of the map-with-tombstones design + estimate arithmetic)
bind:   (a) spec -> impl: every TLC-enumerated call sequence (depth 2 quick / 3 thorough) and TLC-simulated deeper ones are
            replayed through the real memstore under several byte concretizations;
        (b) impl -> spec: seeded random programs over larger key universes;
        both are judged by TLC on MemStoreTrace.tla (replies, Size, estimate bounds, iteration, both flush variants).
"""
import os
import random

import common
import concrete
import judge
from common import Outcome, SEED, log

PID = "C14"
OPS_KV = ["Add", "Upsert"]
OPS_K = ["Delete", "DeleteIfExists", "Tombstone", "Get", "Contains", "IsTombstoned"]


def random_programs(rng, n, length, nkeys, vals):
    progs = []
    for _ in range(n):
        p = []
        hot = rng.sample(range(nkeys), min(nkeys, rng.choice([2, 4, nkeys])))
        for _ in range(length):
            k = rng.choice(hot) if rng.random() < 0.8 else rng.randrange(nkeys)
            if rng.random() < 0.45:
                op = rng.choice(OPS_KV)
                v = rng.choice(vals)
                if rng.random() < 0.03:
                    k = -1
                if rng.random() < 0.03:
                    v = "NIL"
                p.append({"op": op, "k": k, "v": v})
            else:
                p.append({"op": rng.choice(OPS_K), "k": k, "v": "NIL"})
        progs.append(p)
    return progs


def nontrivial(prog):
    """a program is non-trivial when it re-touches a key after a delete/tombstone or overwrites a key"""
    seen = {}
    for c in prog:
        k = c["k"]
        if c["op"] in ("Delete", "DeleteIfExists", "Tombstone") and k in seen:
            return True
        if c["op"] in OPS_KV and k in seen:
            return True
        if c["op"] in OPS_KV or c["op"] == "Tombstone":
            seen[k] = 1
    return False


def run(tier):
    o = Outcome(PID, tier, "model_checking")
    rng = random.Random(SEED)
    thorough = tier == "thorough"
    binary = common.build_harness()

    # 1. the design: exhaustive TLC
    judge.model_check("MemStore.tla", "MC_MemStore_big.cfg" if thorough else "MC_MemStore.cfg", o, "exhaustive design check")

    # 2. spec -> impl: TLC-generated behaviours
    behs, _ = judge.gen_behaviours("MemStore.tla", "Gen_MemStore.cfg" if thorough else "Gen_MemStore_d2.cfg", outcome=o, what="behaviour generation")
    sims, _ = judge.gen_behaviours("MemStore.tla", "Sim_MemStore.cfg", simulate="num=%d" % (3000 if thorough else 400), depth=13,
                                   seed=SEED, outcome=o, what="simulated deeper behaviours", tag="BEH")
    progs_small = [[{"op": c["op"], "k": c["k"], "v": c["v"]} for c in b] for b in behs + sims]
    log("[C14] %d enumerated + %d simulated behaviours from TLC" % (len(behs), len(sims)))

    batches = []
    fams = [("empty0", "short"), ("marker", "marker"), ("prefix", "sized"), ("be4", "big40k")]
    if thorough:
        fams += [("be4", "zeros"), ("nonutf8", "sized"), ("long", "marker")]
    small_vals = ["EMPTY", "vA", "vB"]
    for kf, vf in fams:
        batches.append(("tlc-%s-%s" % (kf, vf), concrete.key_family(kf, 2, rng), concrete.value_family(vf, small_vals, rng), progs_small,
                        rng.choice([16, 64, 4096])))
    # 3. impl -> spec: random programs on big universes
    big_vals = ["EMPTY", "vA", "vB", "vC", "vD", "vE"]
    nrand = 40 if thorough else 10
    for i in range(3 if not thorough else 8):
        nkeys = rng.choice([8, 50, 200]) if i else 1000
        kf = rng.choice(["be4", "empty0", "ascii", "nonutf8", "marker"])
        vf = rng.choice(concrete.VALUE_FAMILIES)
        progs = random_programs(rng, nrand, rng.choice([200, 800]) if nkeys < 1000 else 1500, nkeys, big_vals)
        batches.append(("rand%d-%s-%s-%d" % (i, kf, vf, nkeys), concrete.key_family(kf, nkeys, rng), concrete.value_family(vf, big_vals, rng), progs,
                        rng.choice([16, 4096, 1 << 20])))

    total_cases = 0
    distinct = set()

    def do_batch(b):
        name, keys, vals, progs, wbuf = b
        work = common.scratch("c14-" + name)
        trace = os.path.join(work, "trace.ndjson")
        judge.run_driver(binary, "memstore", {"keys": concrete.hexkeys(keys), "vals": concrete.hexvals(vals), "programs": progs,
                                              "dir": work, "wbuf": wbuf}, trace)
        return judge.judge_trace("MemStoreTrace.tla", "MemStoreTrace.cfg", trace, o, "judge " + name, heap="3g")

    results = common.parallel(do_batch, batches)
    for (name, keys, vals, progs, wbuf), (nok, bad, r) in zip(batches, results):
        total_cases += len(progs)
        o.traces += len(progs)
        for p in progs:
            if nontrivial(p):
                distinct.add(str(p))
        for b in bad[:50]:
            case = b.get("case", -1)
            prog = progs[case] if 0 <= case < len(progs) else None
            sig = "memstore/%s" % b["clause"]
            o.report(sig, "batch %s case %s line %s: expected %s, got %s" % (name, case, b["line"], b["expected"], b["got"]),
                     {"batch": name, "keys": concrete.hexkeys(keys), "vals": concrete.hexvals(vals), "program": prog, "wbuf": wbuf})
        log("[C14] batch %-28s %5d programs, %6s replies accepted, %d rejected (%.1fs)" % (name, len(progs), nok, len(bad), r.wall))
        if progs:
            o.sample({"batch": name, "program": progs[len(progs) // 2][:12]})
    o.evaluations = total_cases
    o.nontrivial = len(distinct)
    o.rule = ("programs = TLC-enumerated call sequences of MemStore.tla (all sequences of the given depth over 2 keys x 3 values x nil key/value) "
              "+ TLC -simulate behaviours of depth 12 + seeded random programs over 8..1000 keys; each replayed under byte concretizations; "
              "non-trivial = overwrites a key or touches a key again after Delete/Tombstone; distinct by call sequence")
    o.assumptions = ["token order = byte order (checked by concrete.py assertions)",
                     "nil and empty values are not distinguished after a table round trip (read back as length 0)",
                     "the reported estimate is capped at 2^30 by the observer (TLC integers are 32 bit)"]
    return o.finish()


def replay(path):
    import json
    v = json.load(open(os.path.join(path, "violation.json")))
    p = v["payload"]
    o = Outcome(PID, "quick", "model_checking")
    binary = common.build_harness()
    work = common.scratch("c14-replay")
    trace = os.path.join(work, "trace.ndjson")
    judge.run_driver(binary, "memstore", {"keys": p["keys"], "vals": p["vals"], "programs": [p["program"]], "dir": work, "wbuf": p["wbuf"]}, trace)
    nok, bad, r = judge.judge_trace("MemStoreTrace.tla", "MemStoreTrace.cfg", trace, o, "replay")
    for b in bad:
        o.report("memstore/%s" % b["clause"], "replay: expected %s got %s" % (b["expected"], b["got"]), p)
    o.evaluations, o.nontrivial, o.traces = 1, 1, 1
    return 1 if o.violations else 0
