"""C01 - SimpleDB reads like a map, whatever flushes, compactions and restarts happen.

spec:  SimpleDB.tla (MC_SimpleDB_seq: sessions x option sets x every placement of rotation / flush / compaction between operations)
bind:  (a) spec -> impl: behaviours simulated by TLC from GenSimpleDB.tla (sequential schedule projection) are replayed against the real
           database with the harness helpers (VerifRotate / VerifFlushBarrier / VerifCompactOnce), all keys read after every step;
       (b) impl -> spec: long seeded multi-session programs with fresh random options per session, background compaction on and off;
       every execution is recorded through the hooks and judged by TLC on SimpleDBTrace.tla: every hook event must be the enabled
       specification step, every Get reply must be a value of the reference read, TReadsLikeMap holds in every state.
"""
import json
import os
import random

import common
import dbgen
import dbrun
import judge
from common import Outcome, SEED, log

PID = "C01"


def signature(b):
    return "dbtrace/%s" % b["clause"]


def run_batches(o, binary, batches, pid_tag):
    """batches: list of (name, cases, gates). Runs + judges in parallel; reports divergences. Returns list of traces."""
    def do(b):
        name, cases, gates = b
        keys = None
        if name.startswith("long-") and name[-1] in "13579":
            # key concretization for every other long program: 300-byte keys, non-UTF-8 keys
            n = int(name[-1])
            keys = [(b"\xff\xfe" if n % 4 == 1 else b"K" * 300) + b"%02d" % i for i in range(16)]
            if n % 4 == 3:
                import concrete
                keys = concrete.embedded_record_keys(16)     # keys that embed a complete valid RecordIO record
        disk = any(st.get("directio") for c in cases for st in c)
        # the directory argument is spelled in different (equivalent) ways: clean, trailing slash, "//", "/./", glob metacharacters in the name, relative
        style = ["", "slash", "dslash", "dot", "glob", "rel"][sum(map(ord, name)) % 6] if pid_tag in ("C01", "C06") else ""
        trace = dbrun.run_db_batch(binary, pid_tag + "-" + name, cases, gates=gates, seed=SEED, keys=keys, disk=disk, dirstyle=style)
        nok, bad, r = dbrun.judge_db(trace, o, "judge " + name)
        return trace, nok, bad, r

    res = common.parallel(do, batches)
    kinds = {}
    for (name, cases, gates), (trace, nok, bad, r) in zip(batches, res):
        evs = common.read_ndjson(trace)
        for k, v in dbgen.count_kinds(evs).items():
            kinds[k] = kinds.get(k, 0) + v
        # coverage of the interesting compaction shapes
        pend_sel = None
        for e in evs:
            if e["t"] == "compact.candidates":
                pend_sel = e
            elif e["t"] == "compact.select" and e.get("compacting") and pend_sel and pend_sel["selected"]:
                tag = "tlc" if name.startswith(("tlc", "lin")) else "random"
                if pend_sel["tables"] and pend_sel["selected"][0] != pend_sel["tables"][0]["gen"]:
                    kinds["compaction_excluding_oldest_" + tag] = kinds.get("compaction_excluding_oldest_" + tag, 0) + 1
                else:
                    kinds["compaction_including_oldest_" + tag] = kinds.get("compaction_including_oldest_" + tag, 0) + 1
        o.traces += len(cases)
        for b in bad[:20]:
            case = b.get("case", -1)
            steps = cases[case] if 0 <= case < len(cases) else None
            ctx = dbrun.context(trace, b["line"])
            o.report(signature(b), "batch %s case %s line %s clause %s\n  event: %s\n  context:\n    %s" % (
                name, case, b["line"], b["clause"], b.get("ev", b.get("got", ""))[:600], "\n    ".join(ctx[-14:])),
                {"batch": name, "steps": steps, "gates": gates, "clause": b["clause"]})
        log("[%s] batch %-24s %4d cases %7d events, %s conforming steps, %d rejected (%.1fs)" % (
            pid_tag, name, len(cases), len(evs), nok, len(bad), r.wall))
    return kinds


def run(tier):
    o = Outcome(PID, tier, "model_checking")
    rng = random.Random(SEED)
    thorough = tier == "thorough"
    binary = common.build_harness()

    judge.model_check("MCSimpleDB.tla", "MC_SimpleDB_seq_big.cfg" if thorough else "MC_SimpleDB_seq.cfg", o, "exhaustive: sessions x cfgs x placements",
                      timeout=1800)

    # spec -> impl
    behs, _ = judge.gen_behaviours("GenSimpleDB.tla", "Gen_SimpleDB_seq.cfg", simulate="num=%d" % (1500 if thorough else 300), depth=80,
                                   seed=SEED, outcome=o, what="TLC-simulated sequential behaviours")
    uniq = {json.dumps(b): b for b in behs}
    behs = list(uniq.values())
    rng.shuffle(behs)
    behs = behs[: (3000 if thorough else 250)]
    cases = [dbgen.beh_to_steps(b, 3, pad=rng.choice([0, 10, 40])) for b in behs]
    nb = 16 if thorough else 8
    batches = [("tlc-%d" % i, cases[i::nb], False) for i in range(nb) if cases[i::nb]]
    # transition cover (CoverSimpleDB.tla): breadth-first exhaustive exploration with one shortest labelled path per state; the path is printed the
    # first time a step with a new abstract signature (phase, tables, flusher / compactor stage, which layer answers each key, options; label) is taken.
    # After dropping paths that are prefixes of others, replaying the rest takes every abstract transition of the bounded model on the real database.
    cov, _ = judge.gen_behaviours("CoverSimpleDB.tla", "Cover_SimpleDB_t.cfg" if thorough else "Cover_SimpleDB_q.cfg", workers=1, tag="COV", timeout=1800,
                                  outcome=o, what="transition cover of the sequential model (one path per abstract transition)")
    paths = {tuple(json.dumps(e, sort_keys=True) for e in b) for b in cov}
    prefixes = {p[:i] for p in paths for i in range(1, len(p))}
    cover = [[json.loads(e) for e in p] for p in sorted(paths) if p not in prefixes]
    log("[C01] transition cover: %d abstract transitions, %d distinct paths, %d after dropping prefixes" % (len(cov), len(paths), len(cover)))
    ccases = [dbgen.beh_to_steps(b, 2, pad=[0, 10, 40][i % 3]) for i, b in enumerate(cover)]
    batches += [("cover-%d" % i, ccases[i::nb], False) for i in range(nb) if ccases[i::nb]]
    o.extra["transition_cover"] = {"abstract_transitions": len(cov), "paths_replayed": len(cover)}
    if len(cover) < 100:
        o.problem("transition cover generation produced only %d paths" % len(cover))

    # re-put chains with the SAME value bytes (the generated programs above write unique values): put k v / delete k / put k v again, with every
    # placement of {nothing, rotation, rotation + flush, rotation + flush + compaction} after each of the three mutations, then a restart
    import itertools
    fill = [[], [{"op": "rotate"}], [{"op": "rotate"}, {"op": "barrier"}], [{"op": "rotate"}, {"op": "barrier"}, {"op": "compact"}]]
    reput = []
    for x1, x2, x3 in itertools.product(range(4), repeat=3):
        obs = {"op": "getall", "k": 3}
        st = [dbgen.open_step(1, 1 << 30, 1000, mem=1 << 30), {"op": "put", "k": 0, "v": "same", "pad": 7}, {"op": "put", "k": 1, "v": "other", "pad": 7}] + fill[x1] + [obs,
              {"op": "del", "k": 0}] + fill[x2] + [obs, {"op": "put", "k": 0, "v": "same", "pad": 7}, {"op": "put", "k": 2, "v": "same", "pad": 7}] + fill[x3] + [obs,
              {"op": "barrier"}, {"op": "close"}, dbgen.open_step(1, 1 << 30, 1000), obs, {"op": "close"}]
        reput.append(st)
    batches += [("reput-%d" % i, reput[i::4], False) for i in range(4)]

    # in the middle of a session a copy of the directory with a torn log tail and an EMPTY compaction marker is opened, read and closed by the same
    # process (what recovery does with such debris - failed opens, closes - must not come back to haunt the tables the session compacts afterwards)
    ua = dbgen.Uniq("r")
    for bi in range(2):
        st = [dbgen.open_step(1, 1 << 30, 1000, mem=1 << 30)]
        for t in range(4):
            st += [{"op": "put", "k": k, "v": ua.next(), "pad": 40} for k in range(8) if (k + t) % 3 != 2] + [{"op": "rotate"}, {"op": "barrier"}]
            if t == 1:
                st += [{"op": "put", "k": 0, "v": ua.next(), "pad": 0}, {"op": "tornreopen"}] * (1 + bi)
        st += [{"op": "getall", "k": 8}, {"op": "compact"}, {"op": "getall", "k": 8}, {"op": "close"}, dbgen.open_step(1, 1 << 30, 1000), {"op": "getall", "k": 8}, {"op": "close"}]
        batches.append(("afterreopen-%d" % bi, [st], False))

    # the handle of the next session is created (NewSimpleDB) while the previous session is still open, and opened after its Close: whatever the
    # constructor looks at is older than the tables the Close flushes
    ub = dbgen.Uniq("p")
    for bi in range(2):
        first = dbgen.open_step(2, 1 << 30, 1000, mem=1 << 30)
        # (in the second program a handle is even created on the still EMPTY directory, before the first session, and opened after it)
        st = ([dict(first, op="prenew")] if bi else []) + [first]
        for sess in range(3):
            st += [{"op": "put", "k": k, "v": ub.next(), "pad": 5} for k in range(4)] + ([{"op": "rotate"}, {"op": "barrier"}] if (sess + bi) % 2 else [])
            st += [{"op": "del", "k": sess}, {"op": "getall", "k": 5}]
            nxt = dbgen.open_step(2, 1 << 30, 1000, mem=1 << 30)
            if bi and sess == 0:
                st += [{"op": "close"}, dict(nxt, usepre=True), {"op": "getall", "k": 5}]     # the handle created before the first session
            else:
                st += [dict(nxt, op="prenew"), {"op": "close"}, dict(nxt, usepre=True), {"op": "getall", "k": 5}]
        st += [{"op": "close"}]
        batches.append(("prenew-%d" % bi, [st], False))

    # impl -> spec: long programs
    nlong = 24 if thorough else 6
    for i in range(nlong):
        prog = dbgen.random_session_program(rng, nkeys=rng.choice([6, 12, 16]), nsessions=rng.choice([3, 4, 6]) if i else 12,
                                            ops_per_session=rng.choice([150, 400]) if i else 60, bg=None, wal_modes=(i % 2 == 1))
        batches.append(("long-%d" % i, [prog], False))
    # one program that crosses > 10 generations before a restart (zero padded names must sort in recency order)
    many = [dbgen.open_step(50, 1 << 30, 1000, mem=1 << 30)]
    u = dbgen.Uniq("g")
    for i in range(14):
        many += [{"op": "put", "k": i % 5, "v": u.next(), "pad": 5}, {"op": "rotate"}]
    many += [{"op": "barrier"}, {"op": "getall", "k": 6}, {"op": "close"}, dbgen.open_step(50, 1 << 30, 1000), {"op": "getall", "k": 6},
             {"op": "put", "k": 1, "v": u.next(), "pad": 5}, {"op": "getall", "k": 6}, {"op": "close"}]
    batches.append(("manygens", [many], False))
    # > 100 generations: directory names of different digit counts must keep sorting in recency order across restarts
    many2 = [dbgen.open_step(200, 1 << 30, 1000, mem=1 << 30)]
    for i in range(104):
        many2 += [{"op": "put", "k": i % 7, "v": u.next(), "pad": 0}, {"op": "rotate"}]
    many2 += [{"op": "barrier"}, {"op": "getall", "k": 8}, {"op": "close"}, dbgen.open_step(200, 1 << 30, 1000), {"op": "getall", "k": 8},
              {"op": "del", "k": 3}, {"op": "put", "k": 1, "v": u.next(), "pad": 0}, {"op": "rotate"}, {"op": "barrier"}, {"op": "getall", "k": 8}, {"op": "close"},
              dbgen.open_step(3, 1 << 30, 1000), {"op": "compact"}, {"op": "getall", "k": 8}, {"op": "close"}, dbgen.open_step(3, 1 << 30, 1000), {"op": "getall", "k": 8}, {"op": "close"}]
    batches.append(("manygens100", [many2], False))

    # sessions that begin with deletes: tables (and whole compaction runs, the oldest table included) that hold nothing but tombstones
    for bi, bg in enumerate([False, True]):
        d = [dbgen.open_step(1, 1 << 30, rng.choice([0, 500, 1000]), mem=1 << 30, bg=bg, interval_us=300)]
        for k in range(4):
            d += [{"op": "del", "k": k}, {"op": "rotate"}]
            if k % 2:
                d += [{"op": "barrier"}] + ([] if bg else [{"op": "compact"}]) + [{"op": "getall", "k": 5}]
        d += [{"op": "barrier"}, {"op": "sleep", "us": 20000}, {"op": "getall", "k": 5}, {"op": "put", "k": 1, "v": u.next(), "pad": 0}, {"op": "del", "k": 1}, {"op": "rotate"}, {"op": "barrier"}]
        d += ([] if bg else [{"op": "compact"}]) + [{"op": "sleep", "us": 20000}, {"op": "getall", "k": 5}, {"op": "close"}, dbgen.open_step(1, 1 << 30, 1000), {"op": "getall", "k": 5}, {"op": "close"}]
        batches.append(("delonly-%d" % bi, [d], False))

    kinds = run_batches(o, binary, batches, "C01")
    o.evaluations = sum(len(b[1]) for b in batches)
    o.nontrivial = len(behs) + len(cover) + nlong + 1
    o.extra["event_kinds"] = kinds
    o.rule = ("cases = distinct TLC-simulated behaviours of GenSimpleDB.tla (sequential projection, 3 keys, all option sets) + the transition cover of "
              "CoverSimpleDB.tla (one shortest path per abstract transition of the bounded model, prefixes dropped) + seeded random "
              "multi-session programs (fresh options per session, background or manual compaction); every case contains at least one "
              "rotation/flush or restart (non-trivial); distinct by action sequence")
    for name, cs, _ in batches[:1] + batches[-2:]:
        o.sample({"batch": name, "steps": cs[0][:14]})
    o.assumptions = ["hook events are emitted at the linearization points listed in SimpleDBTrace.tla",
                     "compaction ratios are restricted to values exactly representable in float32"]
    if kinds.get("install", 0) == 0 or kinds.get("reflect.done", 0) == 0:
        o.problem("vacuous run: no flush install or no compaction reflect was exercised (%s)" % kinds)
    return o.finish()


def replay(path):
    v = json.load(open(os.path.join(path, "violation.json")))
    p = v["payload"]
    o = Outcome(PID, "quick", "model_checking")
    binary = common.build_harness()
    trace = dbrun.run_db_batch(binary, "replay", [p["steps"]], gates=p.get("gates", False), seed=v.get("seed", 1))
    nok, bad, r = dbrun.judge_db(trace, o, "replay")
    for b in bad:
        log("replay: line %s clause %s" % (b["line"], b["clause"]))
    return 1 if bad else 0
