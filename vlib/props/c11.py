"""C11 - I/O failures during merge, compaction and flush are reported, never absorbed.

spec:  MergeTrace.tla clause FaultIsReported: a fault that was hit => the operation returns an error; success => output = oracle of Merge.tla;
       SimpleDBTrace.tla: a failed compaction cycle is never reflected (no reflect.* after a failed cycle) and background failures stop.
bind:  interface level: for TLC-enumerated lists (Merge.tla) a single fault at every record position of every input iterator and at every write
       position of the output writer (double faults sampled) for MergeCompact (both reductions), plain Merge and the stacked scan;
       memstore flushes with the stream writer's inner writers failing at every position (verif hook);
       system level: a failing write(2) (ENOSPC via strace inject) at every position of the output files of a flush and of a compaction
       in a database session; the process must report/stop and the incomplete output must not be installed.
"""
import json
import os
import random

import common
import concrete
import crash
import dbgen
import dbrun
import judge
import mergerun
from common import Outcome, SEED, log

PID = "C11"


def fault_cases(tabs, nkeys, rng, sample=None):
    faults = []
    kinds = ["compact-latest", "compact-skiptomb", "superscan"]
    from props.c08 import disjoint
    if disjoint(tabs):
        kinds.append("merge")
    total_out = len({k for t in tabs for k, _ in t})
    for kind in kinds:
        for i, t in enumerate(tabs):
            for pos in range(len(t) + 1):      # incl. the position where the iterator would report Done
                faults.append({"kind": kind, "input": i, "inpos": pos, "outpos": -1})
            for pos in range(len(t)):          # the input's data file ends at the record boundary in front of record pos
                faults.append({"kind": kind, "input": i, "inpos": pos, "outpos": -1, "cut": True})
        if kind != "superscan":
            for pos in range(total_out):
                faults.append({"kind": kind, "input": -1, "inpos": -1, "outpos": pos})
    # sampled double faults
    for _ in range(3):
        if tabs and total_out:
            i = rng.randrange(len(tabs))
            faults.append({"kind": rng.choice(kinds[:2]), "input": i, "inpos": rng.randrange(len(tabs[i]) + 1), "outpos": rng.randrange(total_out)})
    if sample and len(faults) > sample:
        faults = rng.sample(faults, sample)
    return {"tables": tabs, "probes": [], "ranges": [], "faults": faults, "super": False}


def run(tier):
    o = Outcome(PID, tier, "fault_enumeration")
    rng = random.Random(SEED)
    thorough = tier == "thorough"
    binary = common.build_harness()
    behs, r = judge.gen_behaviours("Merge.tla", "MC_Merge3.cfg", workers=8, outcome=o, what="lists of 3 tables x 3 keys")
    rng.shuffle(behs)
    behs = behs[: (4000 if thorough else 500)]
    nb = 8
    batches = []
    nfaults = 0
    for bi in range(nb):
        keys = concrete.key_family(["be4", "empty0", "marker", "prefix"][bi % 4], 3, rng)
        vals = concrete.value_family(concrete.VALUE_FAMILIES[bi % 4], ["v1", "v2", "v3"], rng)
        cases = [fault_cases(mergerun.tables_from_beh(b, 3), 3, rng) for b in behs[bi::nb]]
        nfaults += sum(len(c["faults"]) for c in cases)
        batches.append(("faults-%d" % bi, keys, vals, cases))
    total = mergerun.run_batches(o, binary, batches, "C11")
    log("[C11] interface level: %d lists, %d fault placements" % (total, nfaults))

    # memstore flush with failing inner writers (engine memflush)
    mf_cases = memflush(o, binary, rng, 200 if thorough else 40)

    # system level: ENOSPC at every write(2) of flush / compaction output files
    sys_n = sysfaults(o, binary, rng, thorough)

    o.evaluations = nfaults + mf_cases + sys_n
    o.nontrivial = nfaults + mf_cases + sys_n
    o.extra["interface_fault_placements"] = nfaults
    o.extra["memstore_flush_fault_placements"] = mf_cases
    o.extra["system_level_write_faults"] = sys_n
    o.rule = ("evaluations = fault placements: (list, operation, failing input x record position | failing output write position) for TLC-enumerated "
              "lists, flush fault positions, and failing write(2) calls (ENOSPC injected by strace) per output file of a flush / compaction; every "
              "placement is distinct and non-trivial (a fault is placed)")
    o.sample({"list": behs[0], "fault": batches[0][3][0]["faults"][0]})
    o.assumptions = ["single faults exhaustively per sampled list, double faults sampled", "system level needs ptrace (strace -e inject)"]
    return o.finish()


def memflush(o, binary, rng, n):
    """memstore.Flush / FlushWithTombstones with the data or index writer failing at position p: must return an error"""
    cases = []
    for i in range(n):
        nk = rng.randrange(1, 6)
        entries = [[k, rng.choice(["vA", "NIL", "vB"])] for k in range(nk)]
        for p in range(nk):
            for which in ("data", "index"):
                cases.append({"entries": entries, "tomb": rng.random() < 0.5, "which": which, "pos": p})
        for which in ("dataclose", "indexclose"):
            cases.append({"entries": entries, "tomb": rng.random() < 0.5, "which": which, "pos": 0})
    work = common.scratch("C11-memflush")
    trace = os.path.join(work, "trace.ndjson")
    keys = concrete.key_family("be4", 6, rng)
    vals = concrete.value_family("short", ["vA", "vB"], rng)
    judge.run_driver(binary, "memflush", {"keys": concrete.hexkeys(keys), "vals": concrete.hexvals(vals), "dir": work, "cases": cases}, trace)
    evs = common.read_ndjson(trace)
    for e, c in zip(evs, cases):
        # the judge for this tiny protocol is the FaultIsReported clause itself: hit => error
        if e["hit"] and e["err"] == "":
            o.report("memflush/fault-absorbed", "memstore flush (tombstones=%s) with the %s writer failing at record %d returned no error; entries %s" % (
                c["tomb"], c["which"], c["pos"], c["entries"]), c)
    o.traces += len(cases)
    return len(cases)


def sysfaults(o, binary, rng, thorough):
    """flush: ENOSPC on the n-th write(2) to one output file of the first flush (strace -P <file> -e inject);
    compaction: the merged table's stream writer fails its n-th data / index append (verif hook inside the real executeCompaction).
    Outcome lines are judged by TLC on FaultTrace.tla."""
    u = dbgen.Uniq()
    base = [dbgen.open_step(0, 1 << 30, 1000, mem=1 << 30, bg=False, wbuf=32)]
    model = ["none"] * 4
    for k in range(4):
        v = u.next()
        base.append({"op": "put", "k": k, "v": v, "pad": 60})
        model[k] = v
    jobs = []
    whens = range(1, 9) if thorough else (1, 2, 3, 5)
    for fname in ("data.rio", "index.rio", "meta.pb.bin", "bloom.bf.gz"):
        for when in whens:
            jobs.append(("flush", fname, when, base + [{"op": "rotate"}, {"op": "barrier"}, {"op": "getall", "k": 4}, {"op": "close"}], list(model)))
    v2 = u.next()
    m2 = list(model)
    m2[1] = v2
    for which in ("data", "index", "dataclose", "indexclose"):
        for pos in ((range(0, 4) if thorough else (0, 1, 3)) if not which.endswith("close") else (0,)):
            steps = base + [{"op": "rotate"}, {"op": "barrier"}, {"op": "put", "k": 1, "v": v2, "pad": 60}, {"op": "rotate"}, {"op": "barrier"},
                            {"op": "failwrites", "match": "sstable_compaction", "which": which, "pos": pos}, {"op": "compact"},
                            {"op": "getall", "k": 4}, {"op": "close"}]
            jobs.append(("compact", which, pos, steps, m2))

    # compaction that EXCLUDES the oldest table (it is bigger than the size limit): the keep-tombstones branch of the compactor
    v3 = u.next()
    big = [dbgen.open_step(0, 600, 1000, mem=1 << 30, bg=False, wbuf=32)]
    m3 = ["none"] * 4
    for k in range(4):
        v = u.next()
        big.append({"op": "put", "k": k, "v": v, "pad": 400})
        m3[k] = v
    m3[1], m3[2] = v3, "none"
    for which in ("data", "index", "dataclose", "indexclose"):
        for pos in ((0, 1) if not which.endswith("close") else (0,)):
            steps = big + [{"op": "rotate"}, {"op": "barrier"}, {"op": "put", "k": 1, "v": v3, "pad": 10}, {"op": "rotate"}, {"op": "barrier"},
                           {"op": "del", "k": 2}, {"op": "rotate"}, {"op": "barrier"},
                           {"op": "failwrites", "match": "sstable_compaction", "which": which, "pos": pos}, {"op": "compact"},
                           {"op": "getall", "k": 4}, {"op": "close"}]
            jobs.append(("compact", "partial-" + which, pos, steps, m3))
    # an input table is damaged on disk (one flipped payload byte) after it was flushed and before the compaction reads it: reading that
    # record fails its checksum, the compaction must report it and must not install a table built from it
    for pos in ((9, 30, 70) if thorough else (9, 40)):
        steps = base + [{"op": "rotate"}, {"op": "barrier"}, {"op": "put", "k": 1, "v": v2, "pad": 60}, {"op": "rotate"}, {"op": "barrier"},
                        {"op": "damage", "match": "sstable_000000000000001", "which": "data.rio", "pos": pos}, {"op": "compact"},
                        {"op": "getall", "k": 4}, {"op": "close"}]
        jobs.append(("damagecompact", "data.rio", pos, steps, m2))
    # the flush of the replayed log inside Open: image of a kill with acknowledged writes in the log, ENOSPC while recovery writes the table
    for fname in ("data.rio", "index.rio", "meta.pb.bin"):
        for when in ((1, 2, 3) if thorough else (1, 2)):
            jobs.append(("recflush", fname, when, base + [{"op": "snapshot", "v": "img"}, {"op": "close"}], list(model)))

    def do(job):
        target, fname, when, steps, mdl = job
        work = common.scratch("C11-sys-%s-%s-%d" % (target, fname, when))
        trace = os.path.join(work, "trace.ndjson")
        ddir = os.path.join(work, "d")
        inp = {"keys": [k.hex() for k in dbrun.key_bytes()], "dir": ddir, "cases": [{"steps": steps}], "gates": False, "seed": 1}
        with open(os.path.join(work, "in.json"), "w") as f:
            json.dump(inp, f)
        env = dict(os.environ)
        env["VERIF_KEEP_DIR"] = "1"
        slog = os.path.join(work, "strace.log")
        hit = False
        if target == "flush":
            path = os.path.join(ddir, "case0", "sstable_000000000000001", fname)
            sc = ["strace", "-f", "-o", slog, "-e", "trace=write", "-P", path, "-e", "inject=write:error=ENOSPC:when=%d" % when,
                  binary, "db", os.path.join(work, "in.json"), trace]
            rc, out, err, to = common.run_proc(sc, 40, env=env)
            if to:
                # distinguish a hang from a slow machine: one retry with a generous deadline
                import shutil as _sh
                _sh.rmtree(ddir, ignore_errors=True)
                rc, out, err, to = common.run_proc(sc, 240, env=env)
            try:
                hit = "INJECTED" in open(slog, errors="replace").read()
                os.remove(slog)
            except OSError:
                pass
        elif target == "recflush":
            rc, out, err, to = common.run_proc([binary, "db", os.path.join(work, "in.json"), trace], 40, env=env)
            img = os.path.join(ddir, "case0-img")
            rin = os.path.join(work, "rin.json")
            with open(rin, "w") as f:
                json.dump({"keys": [k.hex() for k in dbrun.key_bytes()], "n": 4, "dirs": [img]}, f)
            path = os.path.join(img, "sstable_000000000000001", fname)
            sc = ["strace", "-f", "-o", slog, "-e", "trace=write", "-P", path, "-e", "inject=write:error=ENOSPC:when=%d" % when, binary, "dbread", rin]
            rc2, out2, err2, to = common.run_proc(sc, 60, env=env)
            try:
                hit = "INJECTED" in open(slog, errors="replace").read()
                os.remove(slog)
            except OSError:
                pass
            first = {}
            for ln in (out2 or b"").decode("utf-8", "replace").splitlines():
                try:
                    first = json.loads(ln)
                except ValueError:
                    pass
            reported_open = (not first.get("ok", False)) or rc2 != 0
            r = crash.recover_images(binary, [img], [k.hex() for k in dbrun.key_bytes()], 4)[img]
            import shutil
            shutil.rmtree(ddir, ignore_errors=True)
            return {"case": "%s/%s/%s" % (target, fname, when), "target": target, "hit": bool(hit), "hang": bool(to), "reported": bool(reported_open),
                    "installed": False, "records": True, "reopenOk": bool(r.get("ok")), "m": list(r.get("m") or []), "model": mdl, "err": (r.get("err") or "")[:200]}
        else:
            rc, out, err, to = common.run_proc([binary, "db", os.path.join(work, "in.json"), trace], 40, env=env)
        evs = common.read_ndjson(trace) if os.path.exists(trace) else []
        if target == "damagecompact":
            hit = any(e.get("t") == "note" and "damage armed" in e.get("name", "") and e["name"].endswith("<nil>") for e in evs)
        if target == "compact":
            hit = any(e.get("t") == "bgfail" or (e.get("t") == "note" and "armed" in e.get("name", "")) for e in evs)
            hit = hit and any(e.get("t") == "compact.select" and e.get("compacting") for e in evs)
        reported = (rc != 0 and not to) or any(e.get("t") == "bgfail" for e in evs) or any(e.get("t") == "ret" and str(e.get("r", "")).startswith("err") for e in evs)
        installed = any(e.get("t") == "reflect.done" for e in evs)
        # afterwards the directory must still open and read like the reference map
        r = crash.recover_images(binary, [os.path.join(ddir, "case0")], [k.hex() for k in dbrun.key_bytes()], 4)[os.path.join(ddir, "case0")]
        import shutil
        shutil.rmtree(ddir, ignore_errors=True)
        return {"case": "%s/%s/%s" % (target, fname, when), "target": target, "hit": bool(hit), "hang": bool(to), "reported": bool(reported),
                "installed": bool(installed), "records": fname != "bloom.bf.gz", "reopenOk": bool(r.get("ok")), "m": list(r.get("m") or []), "model": mdl, "err": (r.get("err") or "")[:200]}

    lines = common.parallel(do, jobs, nthreads=8)
    tp = os.path.join(common.scratch("C11-faulttrace"), "faults.ndjson")
    common.write_ndjson(tp, lines)
    nok, bad, r = judge.judge_trace("FaultTrace.tla", "FaultTrace.cfg", tp, o, "session-level fault judge")
    for b in bad:
        o.report("sysfault/%s/%s" % (b["case"].rsplit("/", 1)[0], b["clause"]), "fault placement %s: %s: %s" % (b["case"], b["clause"], b["ev"][:500]),
                 {"placement": b["case"]})
    nhit = sum(1 for x in lines if x["hit"])
    log("[C11] session level: %d placements, %d hit a write, %d conform, %d rejected" % (len(lines), nhit, nok, len(bad)))
    if nhit < len(lines) // 2:
        o.problem("vacuous run: only %d of %d session-level fault placements were hit" % (nhit, len(lines)))
    o.traces += len(lines)
    return nhit


def replay(path):
    v = json.load(open(os.path.join(path, "violation.json")))
    if v["signature"].startswith("merge/"):
        return mergerun.replay_case(PID, path)
    log("replay: re-running the check")
    return run("quick")
