"""C04 - RecordIO returns written records unchanged through every reader and access path.

spec:  RecordIO.tla - the file is the sequence of records surviving the writer program (Write / WriteSync / Seek back to a record boundary /
       Close); OffsetsContiguous, SizeIsEnd, SkipIsReadDiscard, SeekNextIsFirstAtOrAfter checked exhaustively over writer programs.
bind:  every TLC-enumerated writer program (<= 4 steps, <= 2 seeks; deeper ones simulated) is executed on the real writer with seeded
       compression types, write / read buffer sizes and payload families (sizes around every buffer and the 4 KiB scan window, marker
       bytes, zeros, nil vs empty); the file is read back sequentially (all ReadNext and mixed read/skip programs), by ReadNextAt at every
       returned offset and by SeekNext from EVERY byte offset; seeded long files; direct-I/O writer where available.  TLC judges on
       RecordIOTrace.tla.
"""
import json
import os
import random

import common
import judge
import riorun
from common import Outcome, SEED, log

PID = "C04"
FAMS = ["tiny", "buffer", "page", "marker", "zeros", "compressible", "mixed", "varint"]


def run(tier):
    o = Outcome(PID, tier, "model_checking")
    rng = random.Random(SEED)
    thorough = tier == "thorough"
    binary = common.build_harness()
    judge.model_check("RecordIO.tla", "MC_RecordIO.cfg", o, "exhaustive: writer programs x reader semantics")
    behs, _ = judge.gen_behaviours("RecordIO.tla", "Gen_RecordIO.cfg", outcome=o, what="all writer programs of <= 4 steps")
    deep, _ = judge.gen_behaviours("RecordIO.tla", "Sim_RecordIO.cfg", simulate="num=%d" % (4000 if thorough else 600), depth=11, seed=SEED,
                                   outcome=o, what="simulated writer programs of <= 9 steps")
    progs = list({json.dumps(b): b for b in behs + deep}.values())
    rng.shuffle(progs)
    if not thorough:
        progs = progs[:2500]
    log("[C04] %d distinct writer programs from TLC" % len(progs))
    nb = 32 if thorough else 16
    batches = []
    for bi in range(nb):
        fam = FAMS[bi % len(FAMS)]
        wbuf = rng.choice([16, 64, 4096, 1 << 22, 7, 1])
        recs = riorun.payload_family(fam, rng, bufs=(16, 64, 4096))
        toks = list(recs)
        cases = []
        for p in progs[bi::nb]:
            big = fam in ("page", "varint")
            cases.append({"ops": riorun.concretize_ops(p, toks, rng), "comp": (bi + len(cases)) % 4, "wbuf": wbuf if wbuf > 1 or not big else 16,
                          "rbuf": rng.choice([16, 64, 4096, 0, 5]), "directio": False, "readprog": rng.choice([[0], [1, 0], [0, 1, 1], [0, 0, 1]]),
                          "seekall": not big or rng.random() < 0.15, "seeks": [0, 8, 9, 100, 4095, 4096, 4097], "damage": "",
                          # every fifth program: the writer is built on an *os.File the caller opened (append mode / read-write / write-only + truncate)
                          "wfile": ["append", "rdwr", "wronly"][len(cases) % 3] if len(cases) % 5 == 4 else ""})
        batches.append(("%s-w%d-%d" % (fam, wbuf, bi), recs, cases))
    # long files and big payloads, sampled seek offsets
    nlong = 6 if thorough else 2
    for i in range(nlong):
        fam = rng.choice(["mixed", "marker", "buffer"])
        recs = riorun.payload_family(fam, rng)
        toks = list(recs) + ["NIL", "EMPTY"]
        ops = [{"op": rng.choice(["write", "write", "writesync"]), "rec": rng.choice(toks), "j": 0} for _ in range(3000 if thorough else 1200)]
        ops.append({"op": "close", "rec": "", "j": 0})
        batches.append(("long-%s-%d" % (fam, i), recs, [{"ops": ops, "comp": i % 4, "wbuf": rng.choice([64, 4096]), "rbuf": rng.choice([64, 4096]), "directio": False,
                                                       "readprog": [1, 0, 0, 1], "seekall": False, "seeks": [rng.randrange(0, 60000) for _ in range(300)], "damage": ""}]))
    recs = riorun.payload_family("big", rng)
    ops = [{"op": "write", "rec": t, "j": 0} for t in list(recs) + ["NIL", "r0"]] + [{"op": "seek", "rec": "", "j": 3}, {"op": "write", "rec": "r3", "j": 0}, {"op": "close", "rec": "", "j": 0}]
    batches.append(("bigpayloads", recs, [{"ops": ops, "comp": c, "wbuf": 4096, "rbuf": 4096, "directio": False, "readprog": [0, 1], "seekall": False,
                                          "seeks": [0, 8, 70000, 1 << 20], "damage": ""} for c in range(4)]))
    # direct I/O writer (aligned block writes, zero tail): write + close programs without seeks / syncs
    recs = riorun.payload_family("mixed", rng)
    dio = [{"ops": [{"op": "write", "rec": rng.choice(list(recs) + ["NIL", "EMPTY"]), "j": 0} for _ in range(rng.randrange(0, 30))] + [{"op": "close", "rec": "", "j": 0}],
            "comp": c % 4, "wbuf": 4096, "rbuf": 4096, "directio": True, "readprog": [0, 1], "seekall": False, "seeks": [0, 8, 50], "damage": ""} for c in range(8)]
    batches.append(("directio", recs, dio))
    # files in the three older format versions the readers still accept (the harness lays them out: the library has no writer for them any more):
    # the same writer programs decide which records the file holds; versions 1 and 2 have no nil flag (only payload records), version 1 no SeekNext
    nleg = 400 if thorough else 90
    for ver in (1, 2, 3):
        for fi, fam in enumerate(["tiny", "marker", "page"] if not thorough else FAMS):
            recs = riorun.payload_family(fam, rng, bufs=(16, 64, 4096))
            if fam != "marker":
                # versions 2 and 3 have no header checksum: a payload that happens to contain the three marker bytes (random payloads of some KiB do,
                # now and then) would be a phantom record for SeekNext - the marker family is read without SeekNext, the others are made marker-free
                recs = {t: v.replace(riorun.MARKER, b"\x91\x8d\x4d") for t, v in recs.items()}
                assert len(set(recs.values())) == len(recs)
            toks = list(recs)
            cases = []
            for p in progs[(ver * 7 + fi)::max(1, len(progs) // nleg)][:nleg]:
                ops = riorun.concretize_ops(p, toks, rng)
                if ver < 3:
                    ops = [dict(op, rec=(rng.choice(toks) if op["rec"] in ("NIL", "EMPTY") else op["rec"])) for op in ops]
                cases.append({"ops": ops, "comp": len(cases) % 4, "wbuf": 0, "rbuf": rng.choice([16, 64, 4096, 0, 5]), "directio": False, "legacy": ver,
                              "readprog": rng.choice([[0], [1, 0], [0, 1, 1], [0, 0, 1]]), "seekall": fam not in ("page", "marker") or (fam == "page" and len(cases) % 6 == 0),
                              # versions 2 and 3 have no header checksum: marker bytes inside a payload are indistinguishable from a record start there
                              "seeks": [] if fam == "marker" else [0, 8, 9, 100, 4095, 4096, 4097], "damage": ""})
            batches.append(("legacy-v%d-%s" % (ver, fam), recs, cases))
    # length sweep: without compression the record header (and with it the header checksum and its varint form) is a function of the payload LENGTH alone -
    # one file holds a record of every length 1..3300, so every header of that range is written and read once (by index, not by a random draw)
    recs = {"r%d" % n: bytes([65 + n % 23]) * n for n in range(1, 3301)}
    ops = [{"op": "write", "rec": t, "j": 0} for t in recs] + [{"op": "close", "rec": "", "j": 0}]
    batches.append(("lensweep", recs, [{"ops": ops, "comp": 0, "wbuf": 4096, "rbuf": 4096, "directio": False, "readprog": [1, 0], "seekall": False, "seeks": [], "damage": ""}]))
    # the protobuf access path (package recordio/proto: proto writer, proto reader incl. its deprecated constructors, memory mapped proto reader): the
    # writer programs WITHOUT a Seek (the proto writer has none), every record a message around the payload; a nil record cannot be expressed (-> EMPTY)
    noseek = [p for p in progs if not any(h["op"] == "seek" for h in p)]
    npro = 600 if thorough else 120
    for fi, fam in enumerate(FAMS if thorough else ["tiny", "marker", "page", "varint"]):
        recs = riorun.payload_family(fam, rng, bufs=(16, 64, 4096))
        toks = list(recs)
        cases = []
        for p in noseek[fi::max(1, len(noseek) // npro)][:npro]:
            ops = [dict(op, rec=("EMPTY" if op["rec"] == "NIL" else op["rec"])) for op in riorun.concretize_ops(p, toks, rng)]
            cases.append({"ops": ops, "comp": len(cases) % 4, "wbuf": [16, 64, 4096, 0, 7][len(cases) % 5], "rbuf": [16, 64, 4096, 0, 5][(len(cases) // 5) % 5], "directio": False, "proto": True,
                          "readprog": [[0], [1, 0], [0, 1, 1], [0, 0, 1]][len(cases) % 4], "seekall": fam not in ("page", "varint") or len(cases) % 6 == 0,
                          "seeks": [0, 8, 9, 100, 4095, 4096, 4097], "damage": ""})
        batches.append(("proto-%s" % fam, recs, cases))
    o.extra["protobuf_access_path_cases"] = sum(len(b[2]) for b in batches if b[0].startswith("proto-"))
    total = riorun.run_batches(o, binary, batches, "C04")
    total += life_cycles(o, binary, thorough)
    o.evaluations = total
    o.nontrivial = sum(1 for p in progs if any(h["op"] == "seek" for h in p)) + nlong + 12
    o.rule = ("cases = TLC-enumerated writer programs (all of <= 4 steps incl. <= 2 seeks, simulated up to 9 steps) x seeded (compression, buffers, "
              "payload family); each read back sequentially, with a read/skip program, by offset and by SeekNext from every byte offset; "
              "non-trivial = program contains a Seek; plus long files, big payloads and the direct-I/O writer")
    o.sample({"program": progs[0]})
    o.assumptions = ["payloads that embed a complete valid record (marker + consistent header checksum) are excluded: no marker-scanning SeekNext can "
                     "tell them apart", "direct I/O cases only use aligned-size buffers and no WriteSync (unsupported by design)"]
    return o.finish()


def life_cycles(o, binary, thorough):
    """LibLifecycle.tla: every call sequence of depth 5 on one file writer / file reader / mmap reader, in whatever phase it is in"""
    seqs = []
    for k in ("fw", "fr", "mm"):
        judge.model_check("LibLifecycle.tla", "MC_LibLife_%s.cfg" % k, o, "life cycle of the %s object: RefusedIsNoOp, ClosedStaysClosed" % k)
        behs, _ = judge.gen_behaviours("LibLifecycle.tla", "MC_LibLife_%s.cfg" % k, outcome=o, what="all call sequences of depth 5 (%s)" % k)
        seqs += [{"kind": k, "ops": [c["op"] for c in b]} for b in behs]
    work = common.scratch("C04-liblife")
    trace = os.path.join(work, "trace.ndjson")
    judge.run_driver(binary, "liblife", {"dir": work, "seqs": seqs}, trace, timeout=600)
    nok, bad, r = judge.judge_trace("LibLifecycleTrace.tla", "LibLifecycleTrace.cfg", trace, o, "judge object life cycles", heap="4g")
    # a deviation from the strict phase table that harms nothing C04 states (say, a second Close that succeeds) is a note, not a verdict
    notes = [b for b in bad if b["clause"].startswith("note:")]
    bad = [b for b in bad if not b["clause"].startswith("note:")]
    for b in bad[:10]:
        o.report("liblife/%s" % b["clause"], "object life cycle: %s\n  expected %s" % (b.get("ev", "")[:500], b.get("expected", "")[:400]), {"line": b["line"]})
    o.extra["life_cycle_sequences"] = len(seqs)
    o.extra["life_cycle_deviations_from_the_strict_phase_table_(notes)"] = len(notes)
    log("[C04] %d call sequences on file writer / file reader / mmap reader: %s conform, %d rejected, %d deviate from the strict phase table (notes)" % (len(seqs), nok, len(bad), len(notes)))
    o.traces += len(seqs)
    return len(seqs)


def replay(path):
    import os
    v = json.load(open(os.path.join(path, "violation.json")))
    p = v["payload"]
    if p.get("recs") == "big":
        log("payloads too big to store; re-running the check")
        return run("quick")
    o = Outcome(PID, "quick", "model_checking")
    binary = common.build_harness()
    riorun.run_batches(o, binary, [("replay", {t: bytes.fromhex(h) for t, h in p["recs"].items()}, [p["case"]])], "C04")
    return 1 if o.violations else 0
