"""C18 - documented concurrent use is data-race free and gives single-threaded answers.

spec:  replies: SimpleDBTrace.tla + KVLinTrace.tla (database histories must conform / linearize as in C05), SSTableTrace.tla (every concurrent
       Get / Contains / ScanRange on one table reader must return the sorted-map answer), RecordIOTrace.tla (every concurrent ReadNextAt /
       SeekNext on one mmap reader must return the record the offsets logged at write time determine); SimpleDB.tla's lock discipline is
       model-checked over all interleavings (MC_SimpleDB_conc, shared with C05).
bind:  drivers built with -race: N in {2,4,16} goroutines x seeds x GOMAXPROCS in {1,2,4,16} against (i) one DB handle, (ii) one table reader
       with the default index loader, (iii) one mmap reader.  A race report or a panic is an event no specification action matches.
       The verdict "no data race" is the Go race detector's on the recorded executions; TLA+ decides the replies.
"""
import glob
import json
import os
import random

import common
import dbrun
import judge
from common import Outcome, SEED, log
from props import c05

PID = "C18"


def run(tier):
    o = Outcome(PID, tier, "exploration")
    rng = random.Random(SEED)
    thorough = tier == "thorough"
    binary = common.build_harness(race=True)
    nrounds = 12 if thorough else 4
    jobs = []
    for i in range(nrounds):
        gmp = str([1, 2, 4, 16][i % 4])
        ng = [2, 4, 16][i % 3]
        jobs.append(("db", i, gmp, ng))
        jobs.append(("sst", i, gmp, ng))
        jobs.append(("rio", i, gmp, ng))

    # two more executions on an UNCOMPRESSED file that is cut inside its last record (odd i, (i // 2) % 4 == 0): many goroutines on many cores
    jobs += [("rio", 97, "16", 16), ("rio", 105, "4", 8)]
    # and two on an uncompressed file whose records are longer than the seek window (i % 4 == 0)
    jobs += [("rio", 96, "16", 16), ("rio", 104, "4", 8)]

    def do(job):
        kind, i, gmp, ng = job
        work = common.scratch("C18-%s-%d" % (kind, i))
        racelog = os.path.join(work, "race")
        env = {"GOMAXPROCS": gmp, "GORACE": "halt_on_error=0 log_path=%s" % racelog}
        res = {"kind": kind, "i": i, "races": 0, "bad": [], "calls": 0, "died": ""}
        if kind == "db":
            case = c05.conc_case(random.Random(SEED * 100 + i), max(2, min(ng, 8)), 120 if not thorough else 300)
            trace = dbrun.run_db_batch(binary, "C18-db-%d" % i, [case], gates=True, seed=SEED + i, env=env, timeout=300)
            nok, bad, r = dbrun.judge_db(trace, o, "white-box db %d" % i)
            lin = trace + ".lin"
            dbrun.project_per_key(trace, lin)
            acc, hw, total = dbrun.judge_lin(lin, o, "black-box db %d" % i)
            res["bad"] = [b["clause"] for b in bad] + ([] if acc else ["not-linearizable"])
            res["calls"] = sum(1 for e in common.read_ndjson(trace) if e["t"] == "inv")
        else:
            trace = os.path.join(work, "trace.ndjson")
            inp = {"dir": os.path.join(work, "d"), "nkeys": rng.choice([40, 400]) if kind == "sst" else rng.choice([60, 600]), "goroutines": ng,
                   "calls": 400 if thorough else 150, "seed": SEED * 100 + i, "comp": (i // 2) % 4 if kind == "rio" else i % 4,
                   # every other mmap execution reads a file that is cut inside its last record (failing reads next to succeeding ones)
                   "cuttail": kind == "rio" and i % 2 == 1,
                   # the read options of the table reader: verify on load (default) / on every read / never
                   "hashmode": ["", "read", "read", "none"][(i // 4 + i) % 4] if kind == "sst" else "",
                   # every third table execution runs against a STACKED reader over two tables
                   "stack": kind == "sst" and i % 3 == 1,
                   # records longer than the 4 KiB window of SeekNext in some executions (seeks that start inside a record scan several windows)
                   "recsize": 6000 if kind == "rio" and i % 4 in (0, 3) else 0}
            if inp["recsize"]:
                inp["nkeys"] = 60
            with open(trace + ".in.json", "w") as f:
                json.dump(inp, f)
            penv = dict(os.environ)
            penv.update(env)
            rc, out, err, to = common.run_proc([binary, "conc" + kind, trace + ".in.json", trace], 300, env=penv)
            if rc != 0 or to:
                res["died"] = "rc=%s timeout=%s %s" % (rc, to, (err or b"").decode("utf-8", "replace")[-300:])
            if os.path.exists(trace):
                mod, cfg = ("SSTableTrace.tla", "SSTableTrace.cfg") if kind == "sst" else ("RecordIOTrace.tla", "RecordIOTrace.cfg")
                nok, bad, r = judge.judge_trace(mod, cfg, trace, o, "%s replies %d" % (kind, i), heap="3g")
                res["bad"] = [b["clause"] for b in bad]
                res["calls"] = nok
        logs = glob.glob(racelog + "*")
        res["races"] = sum(open(p, errors="replace").read().count("WARNING: DATA RACE") for p in logs)
        if logs:
            res["racehead"] = "\n".join(open(logs[0], errors="replace").read().splitlines()[:14])
        return res

    results = common.parallel(do, jobs, nthreads=6)
    calls = 0
    for (kind, i, gmp, ng), res in zip(jobs, results):
        calls += res["calls"]
        o.traces += 1
        if res["races"]:
            o.report("race/%s/data-race" % kind, "%s driver (goroutines=%d GOMAXPROCS=%s): %d data race report(s)\n%s" % (kind, ng, gmp, res["races"], res.get("racehead", "")),
                     {"kind": kind, "i": i, "gomaxprocs": gmp, "goroutines": ng})
        if res["died"]:
            o.report("race/%s/panic-or-death" % kind, "%s driver died: %s" % (kind, res["died"]), {"kind": kind, "i": i})
        for cl in sorted(set(res["bad"])):
            o.report("race/%s/reply/%s" % (kind, cl), "%s driver (goroutines=%d GOMAXPROCS=%s): a concurrent call returned an answer the specification does not allow: %s" % (kind, ng, gmp, cl),
                     {"kind": kind, "i": i})
        log("[C18] %-3s #%d goroutines=%-2d GOMAXPROCS=%-2s calls=%-5d races=%d rejected replies=%d" % (kind, i, ng, gmp, res["calls"], res["races"], len(res["bad"])))
    o.evaluations = calls
    o.nontrivial = len(jobs)
    o.rule = ("evaluations = calls issued concurrently and judged; an execution (driver x seed x GOMAXPROCS x goroutine count) is the distinct unit; "
              "all executions have >= 2 goroutines on one shared handle")
    o.sample({"jobs": jobs[:3]})
    o.assumptions = ["data-race freedom is the Go race detector's verdict on the recorded executions (sampled schedules)", "TLA+ decides the replies"]
    return o.finish()


def replay(path):
    return run("quick")
