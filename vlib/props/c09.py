"""C09 - a damaged SSTable data file is detected, never served as different data.

spec:  SSTable.tla DamageOk / SSTableTrace.tla clause NeverDifferentValue: per key the outcome of reading a damaged table is openFailed,
       readFailed or the ORIGINAL value; scans only yield genuine pairs in ascending order.
bind:  generated tables (1..40 records, non-empty values plus some empty / nil ones, each compression type): every byte offset of data.rio x
       {8 single-bit flips, 0x00, 0xFF, 0x91, 0x8d, 0x4c} (sampled offsets in quick), every truncation length, swaps of two records;
       each damaged table is opened with defaults (verify on load) and with SkipHashCheckOnLoad + EnableHashCheckOnReads under all four
       index loaders; Get of every
       key, full scan and range scan are recorded and judged by TLC.
"""
import json
import os
import random

import common
import concrete
import judge
from common import Outcome, SEED, log

PID = "C09"


def run(tier):
    o = Outcome(PID, tier, "fault_enumeration")
    rng = random.Random(SEED)
    thorough = tier == "thorough"
    binary = common.build_harness()
    judge.model_check("SSTable.tla", "MC_SSTable.cfg", o, "SSTable.tla consistency (shared with C03/C15)")
    ntables = 24 if thorough else 8
    batches = []
    for ti in range(ntables):
        n = rng.choice([1, 2, 3, 6, 12, 40]) if ti else 3
        if ti % 4 == 3:          # long compressible keys + compressed index: several records, so that an index iterator has something to skip
            n = [40, 20][(ti // 4) % 2]
        keys = concrete.key_family(rng.choice(["be4", "ascii", "marker"]) if ti % 4 != 3 else ["longcomp", "medcomp"][(ti // 4) % 2], n, rng)
        toks = ["v%d" % i for i in range(n)]
        vals = concrete.value_family(rng.choice(["short", "sized", "marker", "zeros"]), toks, rng)
        writes = []
        for k in range(n):
            v = toks[k]
            if rng.random() < 0.1:
                v = rng.choice(["EMPTY", "NIL"])
            # systematically: tables whose FIRST / LAST record carries the zero checksum of an empty / nil value (n >= 2: others stay protected)
            if n >= 2 and ((ti % 4 == 1 and k == 0) or (ti % 4 == 2 and k == n - 1)):
                v = ["EMPTY", "NIL"][(ti // 4) % 2]
            writes.append({"k": k, "v": v, "fault": ""})
        size_guess = sum(len(vals[t]) for t in toks) + 12 * n
        step = 1 if (thorough and size_guess < 4000) or size_guess < 250 else max(1, size_guess // (1200 if thorough else 120))
        dcomp = (ti + ti // 4) % 4       # not coupled to the key family / index compression choice (both go by ti % 4)
        case = {"writes": writes, "dcomp": dcomp, "icomp": (1 + (ti // 4) % 3) if ti % 4 == 3 else [-1, 0, 1, 2, 3][(ti // 2) % 5], "step": step, "kinds": ["byte", "trunc", "swap"]}
        batches.append(("t%d-n%d-c%d" % (ti, n, dcomp), keys, vals, [case]))

    # big tables (a record count above 4096 that is not a multiple of 4, 8 or 16): damage confined to the last records
    for bi, n in enumerate([4099, 4111] if thorough else [4099]):
        keys = concrete.key_family("be4", n, rng)
        toks = ["v%d" % i for i in range(n)]
        vals = concrete.value_family("short", toks, rng)
        case = {"writes": [{"k": k, "v": toks[k], "fault": ""} for k in range(n)], "dcomp": bi % 2, "icomp": -1, "step": 2, "kinds": ["byte", "trunc"], "tail": 90}
        batches.append(("big%d-n%d" % (bi, n), keys, vals, [case]))

    def do(b):
        name, keys, vals, cases = b
        work = common.scratch("C09-" + name)
        trace = os.path.join(work, "trace.ndjson")
        judge.run_driver(binary, "sstdamage", {"keys": concrete.hexkeys(keys), "vals": concrete.hexvals(vals), "dir": work, "cases": cases}, trace, timeout=3000)
        return judge.judge_trace("SSTableTrace.tla", "SSTableTrace.cfg", trace, o, "judge " + name, heap="4g")

    res = common.parallel(do, batches)
    ndmg = 0
    for (name, keys, vals, cases), (nok, bad, r) in zip(batches, res):
        ndmg += r.distinct
        o.traces += 1
        seen = set()
        for b in bad:
            if b["clause"] in seen:
                continue
            seen.add(b["clause"])
            o.report("sstdamage/%s" % b["clause"], "table %s line %s clause %s: %s\n  writes: %s" % (name, b["line"], b["clause"], b.get("ev", "")[:700], cases[0]["writes"][:8]),
                     {"batch": name, "keys": concrete.hexkeys(keys), "vals": concrete.hexvals(vals), "case": cases[0]})
        log("[C09] table %-14s %7s damaged readings conform, %d rejected (%.1fs)" % (name, nok, len(bad), r.wall))
    o.evaluations = ndmg
    o.nontrivial = ndmg
    o.rule = ("evaluations = (damage, open mode) pairs judged: byte offset x replacement value, truncation length, record swap - each read with "
              "verify-on-load and with verify-on-read; all distinct and non-trivial (the file differs from the written one)")
    o.sample({"table": batches[0][3][0]["writes"][:5], "damage": "byte off x {bit flips, 00, ff, 91, 8d, 4c}; trunc n; swap(i,j)"})
    o.assumptions = ["a CRC-64 collision is the accepted blind spot", "empty / nil values carry a zero checksum by format design and only need to stay empty / nil"]
    return o.finish()


def replay(path):
    v = json.load(open(os.path.join(path, "violation.json")))
    p = v["payload"]
    o = Outcome(PID, "quick", "fault_enumeration")
    binary = common.build_harness()
    work = common.scratch("C09-replay")
    trace = os.path.join(work, "trace.ndjson")
    judge.run_driver(binary, "sstdamage", {"keys": p["keys"], "vals": p["vals"], "dir": work, "cases": [p["case"]]}, trace)
    nok, bad, r = judge.judge_trace("SSTableTrace.tla", "SSTableTrace.cfg", trace, o, "replay")
    for b in bad[:5]:
        log("replay: line %s clause %s" % (b["line"], b["clause"]))
    return 1 if bad else 0
