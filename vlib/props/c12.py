"""C12 - a cut or header-damaged RecordIO file yields only genuine records, in order.

spec:  RecordIO.tla - CompleteToks(recs, size, n) (the records completely contained in the first n bytes), TruncationYieldsPrefix checked
       exhaustively; RecordIOTrace.tla clauses truncated-file-*, header-damage-*, bad-file-header-*.
bind:  for files generated from TLC-enumerated writer programs under each compression type and buffer size: EVERY truncation length 0..size,
       every byte of every record header x all 255 other values (short files; bit flips + marker bytes + 0x00/0xff for long ones), and
       out-of-range file-header versions / compression codes; each damaged copy is read with the sequential reader to the end and with
       the random-access reader at every original offset.  TLC judges.
"""
import json
import random

import common
import judge
import riorun
from common import Outcome, SEED, log

PID = "C12"


def run(tier):
    o = Outcome(PID, tier, "fault_enumeration")
    rng = random.Random(SEED)
    thorough = tier == "thorough"
    binary = common.build_harness()
    judge.model_check("RecordIO.tla", "MC_RecordIO.cfg", o, "exhaustive: TruncationYieldsPrefix over writer programs")
    behs, _ = judge.gen_behaviours("RecordIO.tla", "Gen_RecordIO.cfg", outcome=o, what="writer programs of <= 4 steps")
    progs = [b for b in behs if sum(1 for h in b if h["op"] in ("write", "writesync")) >= 2]
    rng.shuffle(progs)
    nfiles = 160 if thorough else 36
    progs = progs[:nfiles]
    batches = []
    nb = 16 if thorough else 8
    for bi in range(nb):
        fam = ["tiny", "mixed", "marker", "compressible", "zeros"][bi % 5]
        recs = riorun.payload_family(fam, rng)
        toks = [t for t in recs if len(recs[t]) <= 400]
        cases = []
        for pi, p in enumerate(progs[bi::nb]):
            ops = riorun.concretize_ops(p, toks, rng)
            base = {"ops": ops, "comp": (bi + pi) % 4, "wbuf": rng.choice([16, 4096]), "rbuf": rng.choice([16, 4096]), "directio": False,
                    "readprog": [], "seekall": False, "seeks": []}
            cases.append(dict(base, damage="trunc", dmgstep=1))
            cases.append(dict(base, damage="header", dmgstep=1 if (thorough or pi % 3 == 0) else 2))
            cases.append(dict(base, damage="fileheader", dmgstep=1))
        batches.append(("%s-%d" % (fam, bi), recs, cases))
    # a long file: sampled truncations, reduced header alterations
    recs = riorun.payload_family("mixed", rng)
    ops = [{"op": "write", "rec": rng.choice(list(recs) + ["NIL", "EMPTY"]), "j": 0} for _ in range(120)] + [{"op": "close", "rec": "", "j": 0}]
    base = {"ops": ops, "comp": 2, "wbuf": 4096, "rbuf": 4096, "directio": False, "readprog": [], "seekall": False, "seeks": []}
    batches.append(("long", recs, [dict(base, damage="trunc", dmgstep=37), dict(base, damage="header", dmgstep=2)]))
    # payloads that begin with 0x00, uncompressed, 60 lengths: a header varint that is made to run on (0x80 set on its last byte) ends in
    # the payload without changing its value; a sixteenth of the records has a checksum varint one byte shorter than the others
    recs = riorun.payload_family("zerolead", rng)
    for comp in (0, 1):
        ops = [{"op": "write", "rec": t, "j": 0} for t in recs] + [{"op": "close", "rec": "", "j": 0}]
        base = {"ops": ops, "comp": comp, "wbuf": 4096, "rbuf": rng.choice([16, 4096]), "directio": False, "readprog": [], "seekall": False, "seeks": []}
        batches.append(("zerolead-%d" % comp, recs, [dict(base, damage="header", dmgstep=2), dict(base, damage="trunc", dmgstep=7)]))
    # records above the readers' 512 KiB buffer-pool limit (uncompressed and compressed), cut at sampled lengths incl. inside the big payloads
    recs = riorun.payload_family("big", rng)
    for comp in ((0, 1, 2, 3) if thorough else (0, 2)):
        ops = [{"op": "write", "rec": t, "j": 0} for t in ["r3", "r0", "r4", "r2", "r3"]] + [{"op": "close", "rec": "", "j": 0}]
        base = {"ops": ops, "comp": comp, "wbuf": 4096, "rbuf": rng.choice([16, 4096]), "directio": False, "readprog": [], "seekall": False, "seeks": []}
        batches.append(("bigrecs-%d" % comp, recs, [dict(base, damage="trunc", dmgstep=rng.choice([30011, 41017]))]))
    # files of the older format versions 1-3 (laid out by the harness), cut at every length: the completely contained records, then EOF or an error
    for ver in (1, 2, 3):
        recs = riorun.payload_family(["tiny", "mixed", "compressible"][ver - 1], rng)
        toks = [t for t in recs if len(recs[t]) <= 400]
        cases = []
        for pi, p in enumerate(progs[ver::(3 if thorough else 4)]):
            ops = riorun.concretize_ops(p, toks, rng)
            if ver < 3:
                ops = [dict(op, rec=(rng.choice(toks) if op["rec"] in ("NIL", "EMPTY") else op["rec"])) for op in ops]
            cases.append({"ops": ops, "comp": pi % 4, "wbuf": 0, "rbuf": rng.choice([16, 4096]), "directio": False, "readprog": [], "seekall": False, "seeks": [],
                          "legacy": ver, "damage": "trunc", "dmgstep": 1})
        batches.append(("legacy-v%d" % ver, recs, cases))
    total = riorun.run_batches(o, binary, batches, "C12", sigprefix="riodamage")
    ndmg = 0
    for r in o.extra.get("tlc_runs", []):
        if r["what"].startswith("judge"):
            ndmg += r["distinct"]
    o.evaluations = ndmg
    o.nontrivial = ndmg
    o.rule = ("evaluations = damaged copies read back (one trace line each): every truncation length of every generated file, every record-header "
              "byte x replacement values, file-header field values; counted as judged trace lines; each is a distinct non-trivial fault")
    o.sample({"program": progs[0], "damage": "trunc n=0..size; header byte p of record i := v; version in {0,5,6,255,256,2^32-1}; compression in {4,5,255,2^32-1}"})
    o.assumptions = ["a CRC-32C collision of an altered header is not explored beyond the enumerated single-byte alterations"]
    return o.finish()


def replay(path):
    import os
    v = json.load(open(os.path.join(path, "violation.json")))
    p = v["payload"]
    o = Outcome(PID, "quick", "fault_enumeration")
    binary = common.build_harness()
    riorun.run_batches(o, binary, [("replay", {t: bytes.fromhex(h) for t, h in p["recs"].items()}, [p["case"]])], "C12", sigprefix="riodamage")
    return 1 if o.violations else 0
