"""C17 - a SimpleDB call that returns an error has no effect; string and byte APIs agree.

spec:  SimpleDBApi.tla - validation layer with the WAL as part of the state: RejectedIsNoOp, RecoveryAgrees (reads independent of
       flush / clean restart / crash recovery), SameVerdict; exhaustive over argument classes {nil, empty, ok}^2 x flavours x
       observation actions.  Negative switch LogBeforeValidate (the code before the fix) is rejected by TLC.
bind:  TLC-generated programs mixing rejected and accepted calls with Flush / Reopen / CrashRecover observation steps are replayed
       through both API flavours (keys concretized as non-UTF-8, very long, and plain); a crash image is the directory copied while
       the database is open, recovered by a separate process; everything is judged by TLC on SimpleDBTrace.tla
       (clauses invalid-argument-accepted, rejected-call-had-effect, flavours-disagree, put-without-call,
        recovery-failed-on-crash-image, crash-recovery-differs, get-reply, open-tables-differ-from-closed-state).
"""
import json
import os
import random

import common
import dbgen
import dbrun
import judge
from common import Outcome, SEED, log
from props.c01 import run_batches

PID = "C17"


def api_steps(beh, rng, nkeys=3):
    u = dbgen.Uniq()
    steps = [dbgen.open_step(5, 1 << 30, 1000)]
    fl = ["bytes", "string"]
    obs = lambda i: {"op": "getall", "k": nkeys, "flavor": fl[i % 2]}
    for i, e in enumerate(beh):
        a = e["a"]
        if a == "put":
            steps.append({"op": "putx", "k": e["k"], "v": u.next(e["v"]), "kc": e["kc"], "vc": e["vc"], "flavor": e["fl"], "pad": rng.choice([0, 30])})
        elif a == "del":
            steps.append({"op": "del", "k": e["k"], "flavor": e["fl"]})
        elif a == "flush":
            steps += [{"op": "rotate"}, {"op": "barrier"}]
        elif a == "reopen":
            steps += [{"op": "close"}, dbgen.open_step(5, 1 << 30, 1000)]
        elif a == "crashcheck":
            steps.append({"op": "crashcheck", "k": nkeys})
        steps.append(obs(i))
        if rng.random() < 0.25:
            # invalid-key Delete / Get through both flavours: same verdict, and an error means no effect
            kc = rng.choice(["empty", "nil"])
            for f in fl:
                steps.append({"op": rng.choice(["delx", "getx"]), "k": 0, "kc": kc, "flavor": f})
            steps.append(obs(i + 1))
    steps += [{"op": "crashcheck", "k": nkeys}, {"op": "rotate"}, {"op": "barrier"}, obs(0), {"op": "close"},
              dbgen.open_step(5, 1 << 30, 1000), obs(1), {"op": "close"}]
    return steps


def directio_cases(rng, n):
    """EnableDirectIOWAL: with the synchronous WAL every Put / Delete is refused (documented: not supported) - a refused call must have
    no effect now, after a clean restart and after a crash; with the asynchronous WAL the database works as usual."""
    cases = []
    for i in range(n):
        u = dbgen.Uniq("d")
        nk = 3
        obs = {"op": "getall", "k": nk}
        normal = lambda: dbgen.open_step(5, 1 << 30, 1000)
        dio = dict(dbgen.open_step(5, 1 << 30, 1000), directio=True)
        dioasync = dict(dbgen.open_step(5, 1 << 30, 1000, mem=rng.choice([150, 1 << 30])), directio=True, **{"async": True})
        muts = lambda m: [({"op": "put", "k": rng.randrange(nk), "v": u.next(), "pad": rng.choice([0, 40, 600])} if rng.random() < 0.7
                           else {"op": "del", "k": rng.randrange(nk)}) for _ in range(m)]
        steps = [normal()] + muts(4) + [obs, {"op": "close"}]
        if i % 2 == 0:
            steps += [dio] + muts(rng.randrange(1, 7)) + [obs, {"op": "crashcheck", "k": nk}, {"op": "close"}, normal(), obs] + muts(2) + [obs, {"op": "close"}]
            steps += [dio, obs] + muts(3) + [{"op": "close"}, dio, obs, {"op": "close"}, normal(), obs, {"op": "close"}]
        else:
            steps += [dioasync] + muts(12) + [obs, {"op": "rotate"}, {"op": "barrier"}] + muts(5) + [obs, {"op": "close"}, normal(), obs, {"op": "close"}]
            steps += [dioasync, obs] + muts(6) + [{"op": "close"}, dio, obs] + muts(2) + [obs, {"op": "close"}, normal(), obs, {"op": "close"}]
        cases.append(steps)
    return cases


KEYSETS = {
    # the last key of every universe is the EMPTY key: a Delete/Get with a nil or empty key addresses it
    "plain": [b"key00", b"key01", b""],
    "nonutf8": [b"\xff\xfe\x00\x80a", b"\xff\xfe\x00\x80b", b""],
    "long": [b"L" * 70000 + b"0", b"L" * 70000 + b"1", b""],
    "markerish": [bytes([0x91, 0x8d, 0x4c, 1]), bytes([0x91, 0x8d, 0x4c, 2]), b""],
}


def run(tier):
    o = Outcome(PID, tier, "model_checking")
    rng = random.Random(SEED)
    thorough = tier == "thorough"
    binary = common.build_harness()
    judge.model_check("SimpleDBApi.tla", "MC_SimpleDBApi.cfg", o, "exhaustive: argument classes x flavours x observation actions")
    behs, _ = judge.gen_behaviours("SimpleDBApi.tla", "Gen_SimpleDBApi.cfg", simulate="num=%d" % (4000 if thorough else 600), depth=8,
                                   seed=SEED, outcome=o, what="TLC-simulated API programs")
    uniq = list({json.dumps(b): b for b in behs}.values())
    rng.shuffle(uniq)
    uniq = uniq[: (6000 if thorough else 700)]

    def do(args):
        name, cases, keys = args
        trace = dbrun.run_db_batch(binary, "C17-" + name, cases, seed=SEED, keys=keys + dbrun.key_bytes()[len(keys):], timeout=600)
        nok, bad, r = dbrun.judge_db(trace, o, "judge " + name)
        return trace, nok, bad, r

    jobs = []
    rejected = 0
    names = list(KEYSETS)
    nb = 16 if thorough else 8
    for i in range(nb):
        ks = names[i % len(names)]
        sel = uniq[i::nb]
        if ks == "long":
            sel = sel[: max(10, len(sel) // 4)]
        cases = [api_steps(b, rng) for b in sel]
        rejected += sum(1 for b in sel if any(e["r"] == "rejected" for e in b))
        jobs.append(("%s-%d" % (ks, i), cases, KEYSETS[ks]))
    res = common.parallel(do, jobs)
    # a refused Open (handle already open) while a compaction is between merge and reflect: no effect on the running compaction
    wcases = [[dbgen.open_step(1, 1 << 30, 1000, mem=1 << 30, bg=False), {"op": "window", "v": "open-while-compacting"}, {"op": "getall", "k": 3},
               {"op": "close"}, dbgen.open_step(1, 1 << 30, 1000), {"op": "getall", "k": 3}, {"op": "close"}] for _ in range(2)]
    wtrace = dbrun.run_db_batch(binary, "C17-openwindow", wcases, seed=SEED, timeout=300)
    wnok, wbad, wr = dbrun.judge_db(wtrace, o, "judge refused Open during a compaction")
    jobs.append(("openwindow", wcases, []))
    res.append((wtrace, wnok, wbad, wr))
    # a transient write failure of the log (ENOSPC injected by strace into the K-th write(2) of the WAL file): the Put that fails must have
    # no effect - not now and not after the crash image is recovered - whatever later Puts do
    nwf = 0
    for K in ((2, 3, 4, 5) if thorough else (2, 3)):
        u = dbgen.Uniq("w")
        steps = [dbgen.open_step(5, 1 << 30, 1000)]
        for i in range(5):
            steps.append({"op": "put", "k": i, "v": u.next(), "pad": 10, "mf": True})      # distinct keys: no later Put hides an earlier one
        # (the session ends with a Close that may itself fail on the poisoned log writer: what a restart sees is what the crash image shows)
        steps += [{"op": "getall", "k": 5}, {"op": "crashcheck", "k": 5}, {"op": "close", "mf": True}]
        work = common.scratch("C17-walfault-%d" % K)
        trace = os.path.join(work, "trace.ndjson")
        ddir = os.path.join(work, "d")
        with open(os.path.join(work, "in.json"), "w") as f:
            json.dump({"keys": [k.hex() for k in dbrun.key_bytes()], "dir": ddir, "cases": [{"steps": steps}], "gates": False, "seed": 1}, f)
        slog = os.path.join(work, "strace.log")
        sc = ["strace", "-f", "-o", slog, "-e", "trace=write", "-P", os.path.join(ddir, "case0", "wal", "000000.wal"),
              "-e", "inject=write:error=ENOSPC:when=%d" % K, binary, "db", os.path.join(work, "in.json"), trace]
        rc, out, err, to = common.run_proc(sc, 120)
        hit = os.path.exists(slog) and "INJECTED" in open(slog, errors="replace").read()
        if not hit or not os.path.exists(trace):
            o.problem("WAL write fault %d was not placed (rc=%s)" % (K, rc))
            continue
        nwf += 1
        fnok, fbad, fr = dbrun.judge_db(trace, o, "judge transient log write failure %d" % K)
        jobs.append(("walfault-%d" % K, [steps], []))
        res.append((trace, fnok, fbad, fr))
    o.extra["log_write_faults_placed"] = nwf
    # sessions with the direct-I/O WAL (on a block-device file system)
    dcases = directio_cases(rng, 24 if thorough else 8)
    dtrace = dbrun.run_db_batch(binary, "C17-directio", dcases, seed=SEED, timeout=600, disk=True)
    dnok, dbad, dr = dbrun.judge_db(dtrace, o, "judge direct-I/O sessions")
    jobs.append(("directio", dcases, []))
    res.append((dtrace, dnok, dbad, dr))
    devs = common.read_ndjson(dtrace)
    o.extra["directio_refused_mutations"] = sum(1 for a, b in zip(devs, devs[1:]) if a["t"] == "inv" and a.get("mf") and b["t"] == "ret" and b.get("r") != "ok")
    ncases = 0
    for (name, cases, keys), (trace, nok, bad, r) in zip(jobs, res):
        ncases += len(cases)
        o.traces += len(cases)
        for b in bad[:10]:
            case = b.get("case", -1)
            ctx = dbrun.context(trace, b["line"], before=10)
            o.report("dbtrace/%s" % b["clause"], "batch %s case %s line %s clause %s\n  event: %s\n  context:\n    %s" % (
                name, case, b["line"], b["clause"], b.get("ev", "")[:400], "\n    ".join(x[:300] for x in ctx)),
                {"batch": name, "steps": cases[case] if 0 <= case < len(cases) else None, "keys": [k.hex() for k in keys]})
        log("[C17] batch %-14s %4d cases, %s conforming steps, %d rejected (%.1fs)" % (name, len(cases), nok, len(bad), r.wall))
    # handle life cycle: every call sequence of depth 5 over {open, close, put, get, del} on ONE handle (Lifecycle.tla): calls before Open
    # / after Close / double Open / double Close are rejected with the documented error and have no effect
    seqs, _ = judge.gen_behaviours("Lifecycle.tla", "MC_Lifecycle.cfg", outcome=o, what="all call sequences of depth 5 on one handle")
    lwork = common.scratch("C17-lifecycle")
    ltrace = os.path.join(lwork, "trace.ndjson")
    judge.run_driver(binary, "lifecycle", {"dir": lwork, "seqs": [[c["op"] for c in q] for q in seqs]}, ltrace)
    lnok, lbad, lr = judge.judge_trace("LifecycleTrace.tla", "LifecycleTrace.cfg", ltrace, o, "life cycle judge")
    lnotes = [b for b in lbad if b["clause"].startswith("note:")]
    lbad = [b for b in lbad if not b["clause"].startswith("note:")]
    o.extra["life_cycle_deviations_from_the_strict_phase_table_(notes)"] = len(lnotes)
    for b in lbad[:5]:
        o.report("lifecycle/%s" % b["clause"], "handle life cycle: %s\n  expected %s" % (b.get("ev", "")[:500], b.get("expected", "")[:300]), {"line": b["line"]})
    log("[C17] life cycle: %d call sequences on one handle, %s conform, %d rejected" % (len(seqs), lnok, len(lbad)))
    o.traces += len(seqs)
    ncases += len(seqs)
    o.evaluations = ncases
    o.nontrivial = rejected + len(seqs)
    o.rule = ("cases = distinct TLC-simulated programs of SimpleDBApi.tla (Put with key/value classes nil/empty/ok through both flavours, "
              "Delete, Flush, Reopen, CrashRecover), replayed with 4 key concretizations; non-trivial = contains at least one call the "
              "contract rejects; distinct by program")
    o.sample({"program": uniq[0], "steps": api_steps(uniq[0], random.Random(0))[:10]})
    o.assumptions = ["a crash image is the directory copied while the quiescent database is open (sync WAL: every acknowledged append is in the file)",
                     "Delete/Get with an empty or nil key are only required to agree between the flavours and to have no effect when they fail "
                     "(the interface documents rejection for Put only)"]
    return o.finish()


def replay(path):
    v = json.load(open(os.path.join(path, "violation.json")))
    p = v["payload"]
    o = Outcome(PID, "quick", "model_checking")
    binary = common.build_harness()
    keys = [bytes.fromhex(k) for k in p["keys"]]
    trace = dbrun.run_db_batch(binary, "replay", [p["steps"]], seed=v.get("seed", 1), keys=keys + dbrun.key_bytes()[len(keys):])
    nok, bad, r = dbrun.judge_db(trace, o, "replay")
    for b in bad:
        log("replay: line %s clause %s" % (b["line"], b["clause"]))
    return 1 if bad else 0
