"""C02 - acknowledged writes survive a process kill at any instant (synchronous WAL).

spec:  SimpleDBDisk.tla - disk protocol of client/WAL, flusher, compactor, reflect, Crash at every step and the recovery steps;
       CrashSafe + StepProperty + ReadsLikeMap checked exhaustively by TLC (MC_Disk_sync), negative switches in the self-test.
       CrashJudge.tla / KVStore.tla define what a kill may leave (every acknowledged operation; in-flight ones optional).
bind:  whole sessions of the real database run under strace -f; after EVERY completed file-system-mutating syscall of any thread the
       directory image is rebuilt and the REAL Open + Get of every key runs on it in a killable process; TLC judges every crash
       point against the acknowledged / in-flight operations recorded in the same totally ordered log (CrashJudge.tla).
"""
import collections
import json
import os
import random
import re

import common
import crash
import crashrun
import dbgen
import judge
from common import Outcome, SEED, log

PID = "C02"


def session(rng, kind):
    u = dbgen.Uniq()
    nk = rng.choice([3, 5, 8])
    if kind == "hugeput":        # a record larger than the log's 4 MiB write buffer, in a session that FOLLOWS a clean Close: two write(2) calls
        steps = [dbgen.open_step(1, 1 << 30, 1000, mem=120, bg=False)]
        for i in range(6):
            steps.append({"op": "put", "k": i % 3, "v": u.next(), "pad": 30})
        steps += [{"op": "close"}, dbgen.open_step(1, 1 << 30, 1000, mem=1 << 30, bg=False),
                  {"op": "put", "k": 1, "v": u.next(), "pad": 10}, {"op": "put", "k": 0, "v": u.next(), "pad": 4800000}, {"op": "put", "k": 2, "v": u.next(), "pad": 0},
                  {"op": "close"}]
        return steps
    if kind == "manytables":     # a compaction of 170 tables: its success flag lists 170 paths - a record above the flag writer's 4 KiB buffer, two write(2) calls
        steps = [dbgen.open_step(1000, 1 << 30, 1000, mem=1 << 30, bg=False)]
        for i in range(170):
            steps += [{"op": "put", "k": i % 8, "v": u.next(), "pad": 0}] + ([{"op": "del", "k": (i + 3) % 8}] if i % 9 == 4 else []) + [{"op": "rotate"}]
        steps += [{"op": "barrier"}, {"op": "close"}, dbgen.open_step(1, 1 << 30, 1000, mem=1 << 30, bg=False), {"op": "compact"}, {"op": "put", "k": 1, "v": u.next(), "pad": 0},
                  {"op": "close"}]
        return steps
    if kind == "delheavy":       # runs of deletes of distinct keys: tombstones alone take the memstore over its limit (the next Put rotates a store that was
        # already full when the deletes before it were applied) - every delete must stay in the generation its log record is in
        steps = [dbgen.open_step(rng.choice([0, 1, 2]), 1 << 30, 1000, mem=rng.choice([8, 12, 18]), bg=rng.random() < 0.5, interval_us=1500)]
        for k in range(8):
            steps.append({"op": "put", "k": k, "v": u.next(), "pad": 0})
        for r in range(5):
            ks = rng.sample(range(8), rng.randrange(3, 8))
            steps += [{"op": "del", "k": k} for k in ks]
            steps += [{"op": "sleep", "us": 3000}] if r % 2 else []
            steps.append({"op": "put", "k": rng.randrange(8), "v": u.next(), "pad": 0})
            steps += [{"op": "put", "k": k, "v": u.next(), "pad": 0} for k in rng.sample(ks, 2)]
        steps += [{"op": "close"}, dbgen.open_step(1, 1 << 30, 1000, mem=200, bg=False), {"op": "del", "k": 0}, {"op": "close"}]
        return steps
    if kind == "bigvalues":      # records larger than the write buffer: split over several write(2) calls
        steps = [dbgen.open_step(rng.choice([0, 1]), 1 << 30, 1000, mem=rng.choice([600, 1500]), bg=True, interval_us=1500, wbuf=rng.choice([16, 48]))]
        pads = [100, 300, 700]
    elif kind == "overwrite":    # WAL grows while the memstore does not: size-triggered WAL rotation (limit = 100 x memstore)
        steps = [dbgen.open_step(1, 1 << 30, 1000, mem=rng.choice([40, 60]), bg=rng.random() < 0.5, interval_us=2000, wbuf=64)]
        pads = [0]
        nk = 2
    else:
        steps = [dbgen.open_step(rng.choice([0, 1, 2]), rng.choice([300, 1 << 30]), rng.choice([0, 500, 1000]), mem=rng.choice([100, 150, 250]),
                                 bg=True, interval_us=rng.choice([500, 2000]), wbuf=rng.choice([16, 64, 4096]))]
        pads = [0, 20, 40]
    nops = {"plain": 30, "bigvalues": 14, "overwrite": 160, "twoclients": 24, "foreignfile": 30}[kind]
    if kind == "foreignfile":    # the application keeps a file of its own (LOCK) in the database directory, from the start; compactions run all the time
        steps = [dbgen.open_step(1, 1 << 30, 1000, mem=100, bg=True, interval_us=500, wbuf=64), {"op": "touch"}]
        pads = [0, 20, 40]

    def ops(n, cid=""):
        out = []
        for _ in range(n):
            k = rng.randrange(nk)
            if rng.random() < (0.9 if kind == "overwrite" else 0.7):
                out.append({"op": "put", "k": k, "v": u.next(cid), "pad": rng.choice(pads)})
            else:
                out.append({"op": "del", "k": k})
        return out
    if kind == "twoclients":
        steps.append({"op": "par", "clients": [ops(nops // 2, "a"), ops(nops // 2, "b")]})
    else:
        steps += ops(nops)
    steps.append({"op": "close"})
    if rng.random() < 0.6:
        # the second session writes through a small buffer too: its records are split over several write(2) calls (torn tails in 000000.wal
        # next to whatever the clean Close of the first session left in the log directory)
        steps.append(dbgen.open_step(1, 1 << 30, 1000, mem=200, bg=False, wbuf=rng.choice([16, 48, 0])))
        steps += ops(5)
        steps.append({"op": "close"})
    return steps


def signature(b):
    return "crash/%s/%s/%s" % (crash.normalize_desc(b["desc"]), b["clause"], crash.normalize_err(b.get("err", "")))


def run_sessions(o, binary, sessions, mode, tag):
    """sessions: list of (name, steps). Records, enumerates crash points, recovers, judges. Returns stats."""
    def rec(s):
        name, steps = s
        sess = crashrun.record_session(binary, "%s-%s" % (tag, name), steps, seed=SEED)
        pts = sess["points"]
        if mode == "async":
            # byte-level cuts of the newest WAL file (reachable with a buffered log); not protocol steps, so they are appended
            sess["cuts"] = crash.wal_cut_points(pts, sess["root"])
        allpts = pts
        if name.startswith("manytables"):
            # hundreds of tables: the images are big, so only the crash points of the compaction itself (merged table, success flag - a record of
            # more than one write(2) with this many inputs -, first removals, rename) and a sample of the others are recovered
            nrm = 0
            keep = []
            for i, p in enumerate(pts):
                d = p.desc
                rm = d.startswith(("unlink sstable_0", "rmdir sstable_0"))
                nrm += 1 if rm else 0
                if "sstable_compaction" in d or "compaction_successful" in d or (rm and nrm <= 12) or i % 150 == 0 or i >= len(pts) - 3:
                    keep.append(p)
            pts = keep
        res = crashrun.recover_points(binary, sess, pts + sess.get("cuts", []))
        sess["allpts"] = allpts
        return sess, pts + sess.get("cuts", []), res

    recs = common.parallel(rec, sessions, nthreads=4)
    lines = []
    plines = []
    ilines = []
    npoints = 0
    digests = set()
    descs = collections.Counter()
    for ci, ((name, steps), (sess, pts, res)) in enumerate(zip(sessions, recs)):
        lines += crashrun.judge_lines(ci, mode, sess["events"], pts, res)
        plines += crashrun.proto_lines(ci, sess.get("allpts", pts), sess["events"])
        ilines += crashrun.image_lines(ci, pts, res)
        npoints += len(pts)
        for p in pts:
            digests.add(p.digest)
            descs[crash.normalize_desc(p.desc)] += 1
        if sess["rc"] != 0:
            o.report("crash/session-died", "recorded session %s exited rc=%s: %s" % (name, sess["rc"], sess["err"][-600:]), {"steps": steps})
    tp = os.path.join(common.scratch("cj-" + tag), "judge.ndjson")
    common.write_ndjson(tp, lines)
    nok, bad, r = judge.judge_trace("CrashJudge.tla", "CrashJudge.cfg", tp, o, "crash-point judge " + tag, heap="4g")
    for b in bad:
        case = b.get("case", -1)
        name, steps = sessions[case] if 0 <= case < len(sessions) else ("?", None)
        o.report(signature(b), "session %s crash point %s after syscall '%s': %s; recovered map %s; error %s" % (
            name, b.get("idx"), b.get("desc"), b.get("clause"), b.get("m"), b.get("err", "")[:300]),
            {"session": name, "steps": steps, "idx": b.get("idx"), "mode": mode})
    # protocol conformance of the syscall sequence itself (every step must be an enabled step of the disk protocol)
    pp = os.path.join(common.scratch("cj-" + tag), "proto.ndjson")
    common.write_ndjson(pp, plines)
    pnok, pbad, pr = judge.judge_trace("DiskProtoTrace.tla", "DiskProtoTrace.cfg", pp, o, "disk protocol conformance " + tag, heap="4g")
    seen = set()
    for b in pbad:
        case = b.get("case", -1)
        name, steps = sessions[case] if 0 <= case < len(sessions) else ("?", None)
        if (b["clause"], case) in seen:
            continue
        seen.add((b["clause"], case))
        o.report("proto/%s" % b["clause"], "session %s: syscall is not an enabled step of the disk protocol (%s): %s" % (name, b["clause"], b.get("ev", "")[:400]),
                 {"session": name, "steps": steps, "mode": mode})
    o.extra["protocol_steps_conforming"] = o.extra.get("protocol_steps_conforming", 0) + (pnok or 0)
    # content level: the specification's RecMap / OpenFails evaluated on the decoded image = what the real recovery made of it
    ibad = judge_images(o, ilines, sessions, mode, tag)
    return npoints, len(digests), descs, nok, len(bad) + len(pbad) + ibad


def hugewal_case(async_):
    """more than 128 MiB of overwrites between two memstore rotations (the default size limit of package wal): the database rotates its
    log only in lock-step with the memstore; a file that the log rotated by itself would outlive the flush and be replayed over newer tables"""
    u = dbgen.Uniq("h")
    op = dict(dbgen.open_step(10, 1 << 30, 1000, mem=1 << 30, bg=False))
    if async_:
        op["async"] = True
    steps = [op]
    for i in range(135):
        steps.append({"op": "put", "k": i % 2, "v": u.next(), "pad": 1000000})
    # (with the asynchronous log the image of a kill right here may miss the buffered tail: only images taken after a rotation must be exact)
    steps += [{"op": "getall", "k": 2}] + ([] if async_ else [{"op": "crashcheck", "k": 2}]) + [{"op": "rotate"}, {"op": "barrier"},
              {"op": "put", "k": 0, "v": u.next(), "pad": 10}, {"op": "del", "k": 1}, {"op": "rotate"}, {"op": "barrier"},
              {"op": "getall", "k": 2}, {"op": "crashcheck", "k": 2}, {"op": "close"}, dict(op), {"op": "getall", "k": 2}, {"op": "close"}]
    return steps


def hugewal(o, binary, mode, tag):
    import dbrun
    steps = hugewal_case(mode == "async")
    trace = dbrun.run_db_batch(binary, tag + "-hugewal", [steps], seed=SEED, timeout=900)
    nok, bad, r = dbrun.judge_db(trace, o, "135 MiB of log between two rotations " + tag)
    seen = set()
    for b in bad:
        if b["clause"] in seen:
            continue
        seen.add(b["clause"])
        o.report("hugewal/%s" % b["clause"], "135 x 1 MB overwrites between two rotations (%s WAL), line %s clause %s: %s" % (mode, b["line"], b["clause"], b.get("ev", "")[:400]),
                 {"session": "hugewal", "steps": None, "mode": mode})
    o.extra["hugewal_conforming_steps"] = nok
    o.traces += 1


def judge_images(o, ilines, sessions, mode, tag):
    ip = os.path.join(common.scratch("cj-" + tag), "images.ndjson")
    common.write_ndjson(ip, ilines)
    inok, ibad, ir = judge.judge_trace("DiskImageTrace.tla", "DiskImageTrace.cfg", ip, o, "decoded images vs RecMap " + tag, heap="4g")
    seen = set()
    # an image the abstraction function has no place for (a file or stage SimpleDBDisk.tla does not know) is no verdict about the
    # property: it is left to the other judges and counted; if that becomes the rule the abstraction is out of date (exit 2)
    nodec = [b for b in ibad if b["clause"] == "image-not-decodable"]
    ibad = [b for b in ibad if b["clause"] != "image-not-decodable"]
    o.extra["images_not_decodable"] = o.extra.get("images_not_decodable", 0) + len(nodec)
    if len(nodec) * 4 > max(1, len(ilines)):
        o.problem("%d of %d images are not decodable into SimpleDBDisk.tla's disk state (e.g. %s)" % (len(nodec), len(ilines), nodec[0].get("err")))
    for b in ibad:
        case = b.get("case", -1)
        name, steps = sessions[case] if 0 <= case < len(sessions) else ("?", None)
        sig = "image/%s/%s" % (re.sub(r" removed=.*", "", crash.normalize_desc(b.get("desc", ""))), b["clause"])
        if sig in seen:
            continue
        seen.add(sig)
        o.report(sig, "session %s crash point %s after '%s': %s; real recovery %s (error %s), specification RecMap %s" % (
            name, b.get("idx"), b.get("desc"), b["clause"], b.get("m"), b.get("err", "")[:200], b.get("spec")),
            {"session": name, "steps": steps, "idx": b.get("idx"), "mode": mode})
    o.extra["images_equal_to_spec_RecMap"] = o.extra.get("images_equal_to_spec_RecMap", 0) + (inok or 0)
    return len(ibad)


def run(tier, pid=PID, mode="sync"):
    o = Outcome(pid, tier, "model_checking")
    rng = random.Random(SEED)
    thorough = tier == "thorough"
    binary = common.build_harness()
    judge.model_check("SimpleDBDisk.tla", "MC_Disk_sync_big.cfg" if thorough else "MC_Disk_sync.cfg", o,
                      "exhaustive disk protocol: crash anywhere incl. inside recovery", timeout=2400)
    kinds = ["plain", "bigvalues", "overwrite", "twoclients"]
    n = 40 if thorough else 8
    sessions = [("%s-%d" % (kinds[i % 4], i), session(rng, kinds[i % 4])) for i in range(n)]
    sessions.append(("hugeput-%d" % n, session(rng, "hugeput")))
    sessions += [("delheavy-%d" % (n + 1 + i), session(rng, "delheavy")) for i in range(6 if thorough else 2)]
    sessions.append(("manytables-%d" % (n + 9), session(rng, "manytables")))
    sessions.append(("foreignfile-%d" % (n + 10), session(rng, "foreignfile")))
    npoints, ndistinct, descs, nok, nbad = run_sessions(o, binary, sessions, mode, pid)
    hugewal(o, binary, mode, pid)
    log("[%s] %d sessions, %d crash points (%d distinct images), %d recover into the allowed set, %d rejected" % (pid, n, npoints, ndistinct, nok, nbad))
    o.traces = n
    o.evaluations = npoints
    o.nontrivial = ndistinct
    o.extra["crash_point_kinds"] = dict(descs.most_common(40))
    o.rule = ("evaluations = crash points = completed file-system-mutating syscalls (create, write, truncate, rename, unlink, mkdir, rmdir) "
              "of any thread in recorded sessions (open, operations, rotations, flushes, compactions, close, reopen); each is an image on "
              "which the real recovery ran; distinct_nontrivial = images with distinct content")
    o.sample({"session": sessions[0][0], "steps": sessions[0][1][:8], "crash_point_kinds": list(descs)[:12]})
    o.assumptions = ["kill -9 model: a completed syscall is retained, a syscall is atomic", "strace orders overlapping syscalls of different threads "
                     "by completion; other schedules come from other seeds", "ptrace is permitted in the sandbox (otherwise the check exits 2)"]
    need = ["rename sstable_compaction* -> sstable_N", "unlink wal/N.wal", "write sstable_N/meta.pb.bin"]
    for nd in need:
        if descs.get(nd, 0) == 0:
            o.problem("vacuous run: no crash point of kind '%s'" % nd)
    return o.finish()


def replay(path):
    v = json.load(open(os.path.join(path, "violation.json")))
    p = v["payload"]
    o = Outcome(PID, "quick", "model_checking")
    binary = common.build_harness()
    npoints, nd, descs, nok, nbad = run_sessions(o, binary, [(p.get("session", "replay"), p["steps"])], p.get("mode", "sync"), "replay")
    log("replay: %d crash points, %d rejected" % (npoints, nbad))
    return 1 if nbad or o.violations else 0
