"""C07 - WAL replay yields the appended records in order; synced appends survive a kill.

spec:  WAL.tla - numbered files, Append / AppendSync / forced and size-triggered Rotate, buffer flushes that may cut the last record, Crash
       losing the unflushed buffer; ReplayIsPrefix, SyncedSurvive, CleanReplayIsAll checked exhaustively by TLC.
bind:  WAL-only sessions run under strace: after EVERY completed mutating syscall the directory image is rebuilt and the REAL replay runs on
       it; TLC (WALTrace.tla) requires: replay succeeds, delivers a prefix of the appended sequence containing every record whose AppendSync
       had returned, a write + later fsync of the file lie between invocation and return of each AppendSync, and the replay of the cleanly
       closed log equals the appended sequence (across 0..50+ rotations, file size limits below one record, records larger than the limit or
       the write buffer, empty records).
"""
import json
import os
import random
import shutil

import common
import crash
import judge
from common import Outcome, SEED, log, MachineryError

PID = "C07"


def session(rng, kind):
    recs = {}
    wbuf = {"small": rng.choice([16, 64, 4096]), "big": rng.choice([16, 4096, 1 << 22]), "rot": 4096, "many": 4096}.get(kind, 4096)
    # record sizes around the write buffer: below, equal, between one and two buffers (the tail stays buffered), far above
    around = [wbuf - 1, wbuf, wbuf + 3, wbuf + wbuf // 2, 2 * wbuf - 9, 2 * wbuf + 1, 3 * wbuf + 5] if wbuf <= 4096 else [70000, 5000]
    sizes = {"small": [0, 1, 5, 30] + around[:5], "big": [0, 10, 200] + around, "rot": [3, 20, 60]}[kind if kind in ("small", "big", "rot") else "small"]
    for i, n in enumerate(sizes):
        recs["r%d" % i] = (bytes([65 + i]) * (1 if n else 0) + bytes(rng.randrange(256) for _ in range(max(0, n - 1)))).hex()
    toks = list(recs) + ["NIL"]          # the nil record (appended as nil, replayed as nil)
    maxsize = {"small": rng.choice([1, 64, 1024]), "big": rng.choice([64, 4096, 128 << 20]), "rot": 40, "many": 1}[kind] if kind != "many" else 1
    ops = []
    n = {"small": 30, "big": 14, "rot": 40, "many": 130}[kind]
    for i in range(n):
        x = rng.random()
        if x < 0.45:
            ops.append({"op": "append", "rec": rng.choice(toks)})
        elif x < 0.9:
            ops.append({"op": "appendsync", "rec": rng.choice(toks)})
        else:
            ops.append({"op": "rotate", "rec": ""})
    ops.append({"op": "close", "rec": ""})
    return {"recs": recs, "maxsize": maxsize, "wbuf": wbuf, "comp": rng.choice([0, 2]), "ops": ops}


def run(tier):
    o = Outcome(PID, tier, "model_checking")
    rng = random.Random(SEED)
    thorough = tier == "thorough"
    binary = common.build_harness()
    judge.model_check("WAL.tla", "MC_WAL.cfg", o, "exhaustive: append / sync / rotate / flush / crash")
    kinds = ["small", "big", "rot", "many", "small", "big"]
    n = 24 if thorough else 6
    sessions = [(("%s-%d" % (kinds[i % len(kinds)], i)), session(rng, kinds[i % len(kinds)])) for i in range(n)]

    def rec(s):
        name, cfg = s
        work = common.scratch("C07-" + name)
        # every other log lives in a directory whose name contains glob metacharacters
        globby = sum(map(ord, name)) % 2 == 0
        sfx = "[1]*?" if globby else ""
        root = os.path.join(work, "wal" + sfx)
        trace = os.path.join(work, "trace.ndjson")
        inp = dict(cfg, dir=root)
        with open(os.path.join(work, "in.json"), "w") as f:
            json.dump(inp, f)
        slog = os.path.join(work, "strace.log")
        rc, to, err = crash.record([binary, "wal", os.path.join(work, "in.json"), trace], slog, timeout=120)
        if not os.path.exists(slog) or os.path.getsize(slog) == 0:
            raise MachineryError("strace produced no log: %s" % err[-300:])
        sysc = crash.parse(slog)
        os.remove(slog)
        pts, events, model = crash.crash_points(sysc, root, trace, max_points=None)
        if kind_many(name):
            pts = pts[::7] + pts[-3:]
        # replay every image
        dirs = []
        for i, p in enumerate(pts):
            d = os.path.join(work, "img", "p%05d%s" % (i, sfx))
            crash.materialize(p.snap, root, d)
            os.makedirs(d, exist_ok=True)
            dirs.append(d)
        res = {}
        for c in range(0, len(dirs), 60):
            chunk = dirs[c:c + 60]
            ip = os.path.join(work, "rp%d.json" % c)
            with open(ip, "w") as f:
                json.dump(dict(cfg, dirs=chunk), f)
            rc2, out, err2, to2 = common.run_proc([binary, "walreplay", ip], 120)
            for ln in (out or b"").decode("utf-8", "replace").splitlines():
                try:
                    r = json.loads(ln)
                    res[r["dir"]] = r
                except ValueError:
                    pass
        shutil.rmtree(os.path.join(work, "img"), ignore_errors=True)
        results = [res.get(d, {"ok": False, "err": "replay process died or hung", "out": []}) for d in dirs]
        # byte-level cuts of the LAST file of the cleanly closed log: with buffered appends a kill can leave the file cut at any
        # offset behind the file header (the flush boundary is arbitrary relative to the records), so every such cut must replay
        cuts = []
        if pts:
            files, _ = pts[-1].snap
            wals = sorted(f for f in files if f.endswith(".wal"))
            if wals:
                last = wals[-1]
                size = len(files[last])
                lens = sorted(set([0] + list(range(8, min(size, 40) + 1)) + list(range(max(8, size - 300), size + 1))))
                if len(wals) > 20:
                    lens = lens[::5] + [size]
                cdirs = []
                for L in lens:
                    d = os.path.join(work, "cut", "c%06d%s" % (L, sfx))
                    crash.materialize(pts[-1].snap, root, d)
                    with open(os.path.join(d, os.path.relpath(last, root)), "r+b") as f:
                        f.truncate(L)
                    cdirs.append(d)
                cres = {}
                for c in range(0, len(cdirs), 100):
                    ip = os.path.join(work, "cut%d.json" % c)
                    with open(ip, "w") as f:
                        json.dump(dict(cfg, dirs=cdirs[c:c + 100]), f)
                    rc2, out, err2, to2 = common.run_proc([binary, "walreplay", ip], 180)
                    for ln in (out or b"").decode("utf-8", "replace").splitlines():
                        try:
                            r = json.loads(ln)
                            cres[r["dir"]] = r
                        except ValueError:
                            pass
                shutil.rmtree(os.path.join(work, "cut"), ignore_errors=True)
                for L, d in zip(lens, cdirs):
                    r = cres.get(d, {"ok": False, "err": "replay process died or hung", "out": []})
                    cuts.append({"t": "cut", "file": os.path.basename(last), "len": L, "size": size, "ok": bool(r.get("ok")),
                                 "err": (r.get("err") or "")[:200], "out": r.get("out") or []})
        return pts, events, results, rc, cuts

    def kind_many(name):
        return name.startswith("many")

    recs = common.parallel(rec, sessions, nthreads=4)
    lines = []
    npoints = 0
    ncuts = 0
    for ci, ((name, cfg), (pts, events, results, rc, cuts)) in enumerate(zip(sessions, recs)):
        lines.append({"t": "reset", "case": ci})
        by_n = {}
        for p, r in zip(pts, results):
            by_n.setdefault(p.ntrace, []).append((p, r))
        closed = False

        def cps(nn):
            for p, r in by_n.get(nn, []):
                lines.append({"t": "cp", "idx": p.idx, "desc": p.desc, "ok": bool(r.get("ok")), "err": (r.get("err") or "")[:200], "out": r.get("out") or [],
                              "clean": closed})
        for i, e in enumerate(events):
            cps(i)
            if e.get("t") in ("inv", "ret"):
                lines.append({"t": e["t"], "op": e.get("op", ""), "rec": e.get("rec", ""), "err": e.get("err", "")})
                if e["t"] == "ret" and e.get("op") == "close":
                    closed = True
            elif e.get("t") in ("fswrite", "fsync") and e.get("file", "").endswith(".wal"):
                lines.append({"t": e["t"], "file": e["file"]})
        for nn in sorted(k for k in by_n if k >= len(events)):
            cps(nn)
        npoints += len(pts)
        lines += cuts
        ncuts += len(cuts)
        if rc != 0:
            o.report("wal/session-died", "session %s exited rc=%s" % (name, rc), cfg)
    # fsync(2) of the log file fails (EIO injected by strace) inside the K-th synchronous append: that call must return an error, and the
    # log must still replay a prefix that contains every append acknowledged without error
    nfs = 0
    for K in ((1, 4, 9, 12) if thorough else (1, 5)):
        work = common.scratch("C07-fsync-%d" % K)
        root = os.path.join(work, "wal")
        trace = os.path.join(work, "trace.ndjson")
        recs = {"r%d" % i: (bytes([65 + i]) * (5 + 3 * i)).hex() for i in range(12)}
        cfg = {"recs": recs, "maxsize": 1 << 30, "wbuf": 4096, "comp": 0, "dir": root,
               "ops": [{"op": "appendsync", "rec": "r%d" % i} for i in range(K)] + [{"op": "close", "rec": ""}]}
        with open(os.path.join(work, "in.json"), "w") as f:
            json.dump(cfg, f)
        slog = os.path.join(work, "strace.log")
        sc = ["strace", "-f", "-yy", "-o", slog, "-e", "trace=fsync,fdatasync", "-e", "inject=fsync,fdatasync:error=EIO:when=%d" % K,
              binary, "wal", os.path.join(work, "in.json"), trace]
        rc, out, err, to = common.run_proc(sc, 120)
        slines = open(slog, errors="replace").read().splitlines() if os.path.exists(slog) else []
        hit = any("INJECTED" in ln and ".wal" in ln for ln in slines)
        evs = common.read_ndjson(trace) if os.path.exists(trace) else []
        rets = [e for e in evs if e.get("t") == "ret" and e.get("op") == "appendsync"]
        if not hit or len(rets) < K:
            o.problem("fsync fault %d was not placed inside a synchronous append (hit=%s, %d appends returned)" % (K, hit, len(rets)))
            continue
        rp = os.path.join(work, "rp.json")
        with open(rp, "w") as f:
            json.dump(dict(cfg, dirs=[root]), f)
        rc2, out2, err2, to2 = common.run_proc([binary, "walreplay", rp], 60)
        rr = {"ok": False, "err": "replay process died", "out": []}
        for ln in (out2 or b"").decode("utf-8", "replace").splitlines():
            try:
                rr = json.loads(ln)
            except ValueError:
                pass
        lines.append({"t": "reset", "case": len(sessions) + nfs})
        nret = 0
        for e in evs:
            if e.get("t") in ("inv", "ret"):
                ln = {"t": e["t"], "op": e.get("op", ""), "rec": e.get("rec", ""), "err": e.get("err", "")}
                if e["t"] == "ret" and e.get("op") == "appendsync":
                    nret += 1
                    ln["fault"] = nret == K
                    ln["wrote"] = True
                if e["t"] == "ret" and e.get("op") == "close":
                    ln["fault"] = False
                    ln["err"] = ""          # whether Close of a log whose last fsync failed reports something is not judged
                lines.append(ln)
                if e["t"] == "inv":
                    lines += [{"t": "fswrite", "file": "x.wal"}, {"t": "fsync", "file": "x.wal"}]
        lines.append({"t": "cp", "idx": -1, "desc": "after fsync fault %d" % K, "ok": bool(rr.get("ok")), "err": (rr.get("err") or "")[:200], "out": rr.get("out") or [], "clean": False})
        nfs += 1
    o.extra["fsync_faults_placed"] = nfs
    tp = os.path.join(common.scratch("C07-judge"), "judge.ndjson")
    common.write_ndjson(tp, lines)
    nok, bad, r = judge.judge_trace("WALTrace.tla", "WALTrace.cfg", tp, o, "WAL crash-point judge")
    seen = set()
    for b in bad:
        name, cfg = sessions[b["case"]] if 0 <= b.get("case", -1) < len(sessions) else ("?", None)
        m = json.dumps(b.get("ev", ""))
        d = ""
        import re
        mm = re.search(r'desc \|-> \\"([^"\\]*)', m)
        if mm:
            d = crash.normalize_desc(mm.group(1))
        elif "cut" in b["clause"]:
            d = "cut"
        sig = "wal/%s/%s" % (b["clause"], d)
        if sig in seen:
            continue
        seen.add(sig)
        o.report(sig, "session %s line %s clause %s: %s" % (name, b["line"], b["clause"], b.get("ev", "")[:600]), {"session": name, "cfg": cfg})
    log("[C07] %d sessions, %d crash images replayed, %s conforming lines, %d rejected" % (len(sessions), npoints, nok, len(bad)))
    o.traces = len(sessions)
    o.evaluations = npoints + ncuts
    o.nontrivial = npoints + ncuts
    o.extra["byte_level_cuts_of_last_file"] = ncuts
    o.rule = ("evaluations = crash images (one per completed mutating syscall of a WAL session, every 7th for the 100+ file session) on which the real "
              "replay ran; plus per-call write/fsync conformance lines; all images distinct by construction of the prefix walk")
    o.sample({"session": sessions[0][0], "ops": sessions[0][1]["ops"][:10], "maxsize": sessions[0][1]["maxsize"], "wbuf": sessions[0][1]["wbuf"]})
    o.assumptions = ["kill -9 model (completed syscalls persist)", "single appender thread (the WAL is not documented as thread safe)"]
    return o.finish()


def replay(path):
    log("replay: re-running the check")
    return run("quick")
