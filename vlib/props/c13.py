"""C13 - asynchronous WAL: a kill loses only a suffix of recent writes, not the database.

spec:  SimpleDBDisk.tla with Async = TRUE: appends go to a write buffer (wbuf) that reaches the file in arbitrary pieces (BufFlush), a
       rotation writes it out, a kill loses it; CrashSafe = the recoverable map is the reference map after some prefix of the acknowledged
       sequence that contains everything before the last rotation - checked exhaustively incl. crashes inside recovery; the negative switch
       RotateDropsBuffer is rejected.  CrashJudge.tla AsyncOk: the recovered map equals the reference map after some prefix of the applied operation sequence that
       contains at least everything before the last WAL rotation (KVStore.tla crash semantics for the asynchronous log);
       SimpleDBDisk.tla is the exhaustively checked protocol the sessions follow.
bind:  as C02 (strace, every syscall boundary, real recovery on every image) with EnableAsyncWAL, including sessions that log more
       than the 4 MiB WAL buffer with incompressible values so that buffer flushes cut records, and memstore sizes giving 0, 1 and
       several rotations before the kill.
"""
import random

import common
import dbgen
from common import SEED
from props import c02

PID = "C13"


def session(rng, kind):
    u = dbgen.Uniq()
    nk = rng.choice([3, 6])
    steps = []
    if kind in ("wrap", "diowrap"):   # > 4 MiB logged: the WAL write buffer wraps and a write(2) ends inside a record
        extra = {"async": True}
        if kind == "diowrap":         # ... with block-aligned direct-I/O writes, and rotations (memstore 3 MiB) after the buffer has wrapped
            extra["directio"] = True
        steps.append(dict(dbgen.open_step(1, 1 << 30, 1000, mem=(3 << 20) if kind == "diowrap" else rng.choice([3 << 20, 1 << 30]), bg=False), **extra))
        for i in range(rng.choice([9, 12])):
            steps.append({"op": "put", "k": rng.randrange(nk), "v": u.next(), "pad": rng.choice([300000, 700000, 1000000])})
            if rng.random() < 0.3:
                steps.append({"op": "del", "k": rng.randrange(nk)})
    else:
        mem = {"norot": 1 << 30, "onerot": 700, "manyrot": 120, "dio": rng.choice([700, 150])}[kind]
        extra = {"async": True}
        if kind == "dio":    # direct-I/O WAL: block-aligned writes, zero padding behind the last record
            extra["directio"] = True
        steps.append(dict(dbgen.open_step(rng.choice([1, 2]), 1 << 30, 1000, mem=mem, bg=(kind == "manyrot"), interval_us=1500, wbuf=rng.choice([64, 4096])),
                          **extra))
        for i in range(30):
            k = rng.randrange(nk)
            steps.append({"op": "put", "k": k, "v": u.next(), "pad": rng.choice([0, 30])} if rng.random() < 0.7 else {"op": "del", "k": k})
    steps.append({"op": "close"})
    if rng.random() < 0.5:
        steps.append(dict(dbgen.open_step(1, 1 << 30, 1000, mem=300, bg=False), **{"async": True}))
        steps += [{"op": "put", "k": 0, "v": u.next(), "pad": 0}, {"op": "del", "k": 1}, {"op": "close"}]
    return steps


def run(tier):
    o = common.Outcome(PID, tier, "model_checking")
    rng = random.Random(SEED)
    thorough = tier == "thorough"
    binary = common.build_harness()
    import judge
    judge.model_check("SimpleDBDisk.tla", "MC_Disk_async_big.cfg" if thorough else "MC_Disk_async.cfg", o,
                      "exhaustive disk protocol with the asynchronous WAL (buffered appends, partial flushes, crash anywhere incl. recovery)", timeout=2400)
    kinds = ["norot", "onerot", "manyrot", "wrap", "dio", "diowrap"]
    n = 30 if thorough else 12
    sessions = [("%s-%d" % (kinds[i % 6], i), session(rng, kinds[i % 6])) for i in range(n)]
    for i in range(4 if thorough else 1):     # delete runs that fill the memstore with tombstones (see C02), with the asynchronous log
        st = c02.session(rng, "delheavy")
        sessions.append(("delheavy-%d" % (n + i), [dict(x, **{"async": True}) if x["op"] == "open" else x for x in st]))
    for i in range(6 if thorough else 2):     # two clients and a tiny memstore: rotations fall between the steps of the other client's mutation
        u = dbgen.Uniq()
        def ops(cid, n=45):
            return [({"op": "put", "k": rng.randrange(6), "v": u.next(cid), "pad": rng.choice([0, 30])} if rng.random() < 0.75 else {"op": "del", "k": rng.randrange(6)}) for _ in range(n)]
        st = [dict(dbgen.open_step(rng.choice([1, 2]), 1 << 30, 1000, mem=rng.choice([60, 120]), bg=False), **{"async": True}),
              {"op": "par", "clients": [ops("a"), ops("b")]}, {"op": "close"}]
        sessions.append(("twoclients-%d" % (n + 10 + i), st))
    npoints, nd, descs, nok, nbad = c02.run_sessions(o, binary, sessions, "async", PID)
    c02.hugewal(o, binary, "async", PID)
    common.log("[C13] %d sessions, %d crash points (%d distinct images), %d allowed, %d rejected" % (n, npoints, nd, nok, nbad))
    o.traces, o.evaluations, o.nontrivial = n, npoints, nd
    o.extra["crash_point_kinds"] = dict(descs.most_common(30))
    o.rule = ("crash points = completed mutating syscalls of sessions run with the asynchronous WAL (0 / 1 / many rotations, > 4 MiB logged); "
              "each an image recovered by the real code; distinct = distinct image content")
    o.sample({"session": sessions[0][0], "steps": sessions[0][1][:6]})
    o.assumptions = ["kill -9 model; the applied order is the order of the put/del hook events taken under the write lock"]
    if not any(d.startswith("write wal/N.wal") for d in descs):
        o.problem("vacuous run: no WAL write observed")
    return o.finish()


def replay(path):
    return c02.replay(path)
