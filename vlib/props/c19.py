"""C19 - descriptors, mappings and goroutines stay bounded and are released by Close.

spec:  Resources.tla - one WAL descriptor while open, one mapping per live table, flush +1, compaction of k tables -k+1, Close releases all
       and joins the flusher and the compactor; HandlesBounded, ClosedReleasesAll, NoGrowthWithCycles checked by TLC over all interleavings
       of open / flush / compact / close.
bind:  real sessions with 50-500 rotation / flush / compaction cycles (manual and background compaction) and open / close cycles, with the
       garbage collector switched off so that finalizers cannot hide a leak; at every quiescent point the driver reads /proc/self/fd,
       /proc/self/maps (filtered to the database directory, incl. deleted files) and the goroutine dump (frames inside the module); after
       Close the directory is removed and re-created by the same process.  Library level: table / stacked / RecordIO / mmap readers with
       complete and abandoned scans, WAL with rotations and aborted replays.  TLC judges ObsOk on ResTrace.tla.
"""
import json
import os
import random

import common
import dbgen
import dbrun
import judge
from common import Outcome, SEED, log

PID = "C19"


def session(rng, cycles, bg):
    u = dbgen.Uniq()
    steps = [{"op": "obs"}]
    nsess = rng.choice([2, 3, 5])
    per = max(1, cycles // nsess)
    for s in range(nsess):
        steps.append(dbgen.open_step(rng.choice([1, 2, 4]), rng.choice([400, 1 << 30]), rng.choice([0, 500, 1000]), mem=1 << 30, bg=bg, interval_us=500))
        steps.append({"op": "obs"})
        for c in range(per):
            for k in range(rng.randrange(1, 5)):
                steps.append({"op": "put", "k": rng.randrange(8), "v": u.next(), "pad": rng.choice([0, 30])})
            if rng.random() < 0.3:
                steps.append({"op": "del", "k": rng.randrange(8)})
            steps.append({"op": "rotate"})
            if not bg and rng.random() < 0.4:
                steps += [{"op": "barrier"}, {"op": "compact"}]
            if c % 5 == 0:
                steps.append({"op": "get", "k": rng.randrange(8)})
                steps.append({"op": "obs"})
            if not bg and c % 17 == 3:
                # a copy of the directory with a torn WAL tail is opened, read and closed in this process: nothing of it may stay open
                steps += [{"op": "put", "k": rng.randrange(8), "v": u.next(), "pad": 20}, {"op": "tornreopen"}]
        if s == nsess - 1:
            # a session that writes nothing (Close with an empty memstore) and one whose only writes are already flushed
            steps += [{"op": "obs"}, {"op": "close"}, {"op": "obs"},
                      dbgen.open_step(2, 1 << 30, 1000, mem=1 << 30, bg=bg, interval_us=500), {"op": "get", "k": 1}, {"op": "obs"}, {"op": "close"}, {"op": "obs"},
                      dbgen.open_step(2, 1 << 30, 1000, mem=1 << 30, bg=bg, interval_us=500), {"op": "put", "k": 1, "v": u.next(), "pad": 0}, {"op": "rotate"}, {"op": "barrier"}]
        if bg and s % 2 == 0:
            # Close while a compaction is between its merge and its reflect: what the reflect installs must be released as well
            steps += [{"op": "obs"}, {"op": "window", "v": "close-while-compacting"}, {"op": "obs"}]
        else:
            steps += [{"op": "obs"}, {"op": "close"}, {"op": "obs"}]
    return steps


def res_lines(evs):
    """projection of a recorded session onto the lines ResTrace.tla consumes (hook events that drive Resources.tla + observations)"""
    lines = []
    last_merged = 0
    for e in evs:
        t = e["t"]
        if t in ("obs", "bgfail", "libobs", "blocked"):
            lines.append(e)
        elif t == "open":
            lines.append({"t": t, "bg": bool(e.get("bg")), "tables": len(e["tables"]) if isinstance(e.get("tables"), list) else int(e.get("tables") or 0)})
        elif t == "compact.merged":
            last_merged = len(e.get("inputs") or [])
            lines.append({"t": t, "ninputs": last_merged})
        elif t == "reflect.done":   # one compaction at a time: the reflect belongs to the last merge
            lines.append({"t": t, "ninputs": last_merged})
        elif t in ("install", "close.begin", "close.flusher", "close.done"):
            lines.append({"t": t})
    return lines


def run(tier):
    o = Outcome(PID, tier, "model_checking")
    rng = random.Random(SEED)
    thorough = tier == "thorough"
    binary = common.build_harness()
    judge.model_check("Resources.tla", "MC_Resources.cfg", o, "exhaustive: open / flush / compact / close")
    # the same invariants for EVERY value of MaxTables / MaxCycles / K (the TLC run above fixes 5 / 8 / 1): inductive invariant, Apalache + TLAPS
    judge.inductive_proof(o, "ResourcesInd.tla", "ResourcesProof.tla", what="Resources.tla: HandlesBounded, ClosedReleasesAll, NoGrowthWithCycles for all constants")
    nsess = 48 if thorough else 4
    jobs = [("s%d" % i, session(rng, rng.choice([200, 500, 1200]) if thorough else rng.choice([50, 120]), bg=(i % 2 == 1))) for i in range(nsess)]

    # a table that holds NOTHING (everything deleted, then compacted with the oldest table taking part): it is a live table like any other, Close
    # releases it, and so does every later session that loads it
    ue = dbgen.Uniq("e")
    empt = [dbgen.open_step(1, 1 << 30, 1000, mem=1 << 30, bg=False), {"op": "obs"}]
    empt += [{"op": "put", "k": k, "v": ue.next(), "pad": 5} for k in range(4)] + [{"op": "rotate"}, {"op": "barrier"}]
    empt += [{"op": "del", "k": k} for k in range(4)] + [{"op": "rotate"}, {"op": "barrier"}, {"op": "obs"}, {"op": "compact"}, {"op": "obs"}, {"op": "close"}, {"op": "obs"}]
    for _ in range(2):
        empt += [dbgen.open_step(1, 1 << 30, 1000, mem=1 << 30, bg=False), {"op": "obs"}, {"op": "get", "k": 1}, {"op": "close"}, {"op": "obs"}]
    jobs.append(("emptytable", empt))

    # Close while the last flush takes a long time (the flusher is held for 33 s at its gate): Close must still be waiting
    jobs.append(("slowflush", [dbgen.open_step(2, 1 << 30, 1000, mem=1 << 30, bg=False), {"op": "obs"},
                               {"op": "window", "v": "close-while-flushing", "us": 33000000}, {"op": "obs"}]))

    def do(job):
        name, steps = job
        trace = dbrun.run_db_batch(binary, "C19-" + name, [steps], seed=SEED, timeout=400, env={"GOGC": "off"})
        return trace

    traces = common.parallel(do, jobs, nthreads=4)
    lines = []
    ncycles = 0
    nclosewin = 0
    for (name, steps), tpath in zip(jobs, traces):
        evs = common.read_ndjson(tpath)
        nclosewin += sum(1 for e in evs if e["t"] == "note" and e.get("name") == "compaction reflected during Close: true")
        ncycles += sum(1 for e in evs if e["t"] in ("install", "reflect.done"))
        lines.append({"t": "reset", "case": name})
        lines += res_lines(evs)
    # library level
    libcases = []
    opsets = [["scan"], ["scanabandon"], ["range", "rangeabandon"], ["scanabandon", "scanabandon", "get", "range"], ["get"], []]
    for k in ("table", "super"):
        for ops in opsets:
            libcases.append({"kind": k, "ops": ops, "n": rng.choice([5, 60, 400])})
    # every interleaving of the life cycles of up to three scanners on one reader, then Close (behaviours of Scanners.tla, all 1 711)
    scripts, _ = judge.gen_behaviours("Scanners.tla", "Gen_Scanners.cfg", workers=4, outcome=o, what="all interleavings of <= 3 scanner life cycles + Close")
    scripts = list({json.dumps(b): b for b in scripts}.values())
    libcases.append({"kind": "scripts", "ops": [], "n": 12, "scripts": scripts})
    for ld in ("disk", "map", "skiplist", "slice"):
        for hm in ("", "read"):
            libcases.append({"kind": "table", "ops": ["scanabandon", "get", "range", "scan"], "n": rng.choice([5, 60, 400]), "loader": ld, "hash": hm})
        libcases.append({"kind": "super", "ops": ["scanabandon", "get", "rangeabandon"], "n": rng.choice([5, 60]), "loader": ld, "hash": ""})
    for k in ("recordio", "mmap", "wal"):
        libcases.append({"kind": k, "ops": [], "n": rng.choice([10, 80])})
    # last (what a failed open leaves mapped would be counted by every later case): recorded as notes only
    for dmg in ("trunc", "flip"):
        libcases.append({"kind": "tablefail", "ops": [], "n": 40, "damage": dmg})
    work = common.scratch("C19-lib")
    ltrace = os.path.join(work, "trace.ndjson")
    env = dict(os.environ)
    env["GOGC"] = "off"
    judge.run_driver(binary, "reslib", {"dir": os.path.join(work, "d"), "cases": libcases}, ltrace, env=env)
    lines += common.read_ndjson(ltrace)
    tp = os.path.join(common.scratch("C19-judge"), "judge.ndjson")
    common.write_ndjson(tp, lines)
    nok, bad, r = judge.judge_trace("ResTrace.tla", "ResTrace.cfg", tp, o, "resource observation judge")
    seen = set()
    o.extra["observations_that_differ_from_the_exact_model_counts_(notes)"] = sum(1 for b in bad if b["clause"].startswith("note:"))
    bad = [b for b in bad if not b["clause"].startswith("note:")]
    for b in bad:
        sig = "res/%s" % b["clause"]
        if sig in seen:
            continue
        seen.add(sig)
        o.report(sig, "case %s clause %s: %s" % (b.get("case"), b["clause"], b.get("ev", "")[:500]), {"case": str(b.get("case"))})
    nobs = sum(1 for e in lines if e["t"] in ("obs", "libobs"))
    log("[C19] %d sessions (%d flush/compaction cycles), %d library life cycles, %d observations, %s conform, %d rejected" % (nsess, ncycles, len(libcases), nobs, nok, len(bad)))
    o.traces = nsess + len(libcases)
    o.evaluations = nobs
    o.nontrivial = nobs
    o.extra["cycles"] = ncycles
    o.extra["closes_overlapping_a_compaction_reflect"] = nclosewin
    o.rule = ("evaluations = observations of (live tables, descriptors, mappings, module goroutines) at quiescent points of real sessions with many "
              "flush / compaction / open / close cycles, and of library object life cycles (complete and abandoned scans); all non-trivial")
    o.sample({"session": jobs[0][1][:8], "library": libcases[:3]})
    o.assumptions = ["bound: descriptors + mappings under the directory <= live tables + 4", "GOGC=off so that finalizers cannot mask a leak",
                     "goroutines are counted by stack frames inside the module"]
    if nclosewin == 0:
        o.problem("vacuous run: no Close overlapped a compaction between merge and reflect")
    if ncycles < 50:
        o.problem("vacuous run: only %d flush/compaction cycles" % ncycles)
    return o.finish()


def replay(path):
    return run("quick")
