"""C10 - recovery may be killed at any instant and repeated without changing the outcome.

spec:  SimpleDBDisk.tla - Crash is enabled in every recovery state too (ReCrash), RecMap is constant along recovery steps
       (StepProperty), checked exhaustively incl. nested crashes (MC_Disk_sync_big, MaxCrash = 2); the negative switch
       WalRemoveAnyOrder shows why the unlink order of the WAL directory matters.
bind:  level-1 crash images of recorded sessions are clustered by their abstract disk state; for representatives the REAL Open runs
       under strace, every syscall boundary inside it gives a level-2 image (plus the images of other unlink orders inside every
       RemoveAll, because the directory listing order is a property of the file system), the real recovery runs to completion on each
       and TLC (CrashJudge.tla, kind "nested") requires the same map as the uninterrupted recovery of the same level-1 image.
"""
import collections
import json
import os
import random
import re
import shutil

import common
import crash
import crashrun
import dbgen
import judge
from common import Outcome, SEED, log
from props import c02

PID = "C10"


def _uvarint(b, i):
    x = s = 0
    while i < len(b):
        c = b[i]
        i += 1
        x |= (c & 0x7F) << s
        if c < 0x80:
            return x, i
        s += 7
    return None, i


def wal_stage(b):
    """E empty | H header only | R complete records | T the last record is cut (independent walk over the v4 framing)"""
    if len(b) == 0:
        return "E"
    if len(b) <= 8:
        return "H"
    i = 8
    compressed = b[4:8] != b"\0\0\0\0"
    while i < len(b):
        if b[i:i + 3] != b"\x91\x8d\x4c"[:len(b) - i] or len(b) - i < 4:
            return "T"
        j = i + 4
        ulen, j = _uvarint(b, j)
        clen, j = _uvarint(b, j) if ulen is not None else (None, j)
        crc, j = _uvarint(b, j) if clen is not None else (None, j)
        if crc is None:
            return "T"
        n = 0 if b[i + 3] == 1 else (clen if compressed else ulen)
        if j + n > len(b):
            return "T"
        i = j + n
    return "R"


def abstract_class(snap, root):
    """cheap projection of an image: which kinds of directories / files exist in which stage"""
    files, dirs = snap
    wal = [wal_stage(b) for p, b in sorted(files.items()) if p.startswith(root + "/wal/")]
    tabs = collections.Counter()
    comp = []
    for d in dirs:
        b = os.path.basename(d)
        if os.path.dirname(d) != root:
            continue
        if b.startswith("sstable_compaction"):
            fl = files.get(d + "/compaction_successful")
            meta = files.get(d + "/meta.pb.bin")
            comp.append("comp:%s:%s" % ("noflag" if fl is None else ("flag" if len(fl) > 8 else "emptyflag"), "meta" if meta else "nometa"))
        elif b.startswith("sstable_"):
            meta = files.get(d + "/meta.pb.bin")
            tabs["complete" if meta else ("partial:%d" % sum(1 for f in ("index.rio", "data.rio", "bloom.bf.gz", "meta.pb.bin") if d + "/" + f in files))] += 1
    return "wal[%s] tabs[%s] %s" % (",".join(wal),
                                    ",".join("%s" % k for k in sorted(tabs)), ",".join(sorted(comp)))


def nested(binary, sess, point, tag):
    """record the real recovery of one level-1 image under strace; returns (ref_result, level2_points, root)"""
    work = os.path.join(sess["work"], "n-" + tag)
    img = os.path.join(work, "lvl1")
    crash.materialize(point.snap, sess["root"], img)
    inp = os.path.join(work, "in.json")
    with open(inp, "w") as f:
        json.dump({"keys": [k.hex() for k in sess["keys"]], "n": crashrun.NKEYS, "dirs": [img]}, f)
    slog = os.path.join(work, "strace.log")
    rc, to, err = crash.record([binary, "dbread", inp], slog, timeout=60)
    if to:
        return None, [], img
    sysc = crash.parse(slog)
    os.remove(slog)
    # initial tree = the level-1 image as materialized (the recorded run has mutated `img` since)
    init = os.path.join(work, "lvl1-init")
    crash.materialize(point.snap, sess["root"], init)
    pts, _, model = crash.crash_points(sysc, img, None, initial=init)
    extra = crash.unlink_permutation_points(pts, img)
    shutil.rmtree(init, ignore_errors=True)
    # the uninterrupted recovery's answer: run once more on a fresh copy (not under strace)
    ref_dir = os.path.join(work, "ref")
    crash.materialize(point.snap, sess["root"], ref_dir)
    ref = crash.recover_images(binary, [ref_dir], [k.hex() for k in sess["keys"]], crashrun.NKEYS,
                               remat={ref_dir: lambda: crash.materialize(point.snap, sess["root"], ref_dir)})[ref_dir]
    shutil.rmtree(ref_dir, ignore_errors=True)
    shutil.rmtree(img, ignore_errors=True)
    return ref, pts + extra, img


def run(tier):
    o = Outcome(PID, tier, "model_checking")
    rng = random.Random(SEED)
    thorough = tier == "thorough"
    binary = common.build_harness()
    judge.model_check("SimpleDBDisk.tla", "MC_Disk_sync_big.cfg", o, "exhaustive disk protocol with crashes inside recovery (MaxCrash=2)", timeout=2400)
    if thorough:
        judge.model_check("SimpleDBDisk.tla", "MC_Disk_sync_c3.cfg", o, "exhaustive disk protocol with up to three kills, any of them inside recovery (MaxCrash=3)", timeout=3000)

    kinds = ["plain", "twoclients", "bigvalues", "plain"]
    nsess = 12 if thorough else 4
    per_class = 3 if thorough else 1
    max_reps = 200 if thorough else 36
    sessions = [("%s-%d" % (kinds[i % 4], i), c02.session(rng, kinds[i % 4])) for i in range(nsess)]
    # a log record above the log's 4 MiB write buffer reaches the file in two write(2) calls: images whose newest log file ends inside a record
    sessions.append(("hugeput-%d" % nsess, c02.session(rng, "hugeput")))
    recs = common.parallel(lambda s: crashrun.record_session(binary, "C10-" + s[0], s[1], seed=SEED), sessions, nthreads=4)

    classes = collections.OrderedDict()
    for si, sess in enumerate(recs):
        for p in sess["points"]:
            c = abstract_class(p.snap, sess["root"])
            classes.setdefault(c, []).append((si, p))
    reps = []
    for c, lst in classes.items():
        rng.shuffle(lst)
        for si, p in lst[:per_class]:
            reps.append((c, si, p))
    # prefer images on which recovery has work to do
    reps.sort(key=lambda r: -(r[0].count("R") * 3 + r[0].count("T") * 6 + r[0].count("flag") * 5 + r[0].count("partial") * 2))
    reps = reps[:max_reps]
    log("[C10] %d level-1 images in %d abstract classes; %d representatives" % (sum(len(s["points"]) for s in recs), len(classes), len(reps)))

    def do(rep):
        c, si, p = rep
        sess = recs[si]
        ref, pts, img = nested(binary, sess, p, "%d-%d" % (si, p.idx))
        if ref is None:
            return rep, None, [], []
        sess2 = {"root": img, "work": os.path.join(sess["work"], "n-%d-%d" % (si, p.idx)), "keys": sess["keys"]}
        res = crashrun.recover_points(binary, sess2, pts, tag="img2")
        return rep, ref, pts, res

    out = common.parallel(do, reps, nthreads=8)
    lines = []
    plines = []
    ilines = []
    n2 = 0
    nperm = 0
    descs = collections.Counter()
    index = []
    for ci, (rep, ref, pts, res) in enumerate(out):
        c, si, p = rep
        if ref is None:
            o.report("nested/recovery-hang", "recovery of level-1 image hangs (class %s, session %s point %s '%s')" % (c, sessions[si][0], p.idx, p.desc),
                     {"steps": sessions[si][1], "idx": p.idx})
            continue
        index.append((sessions[si][0], p.idx, p.desc, c))
        lines.append({"t": "reset", "case": len(index) - 1, "mode": "sync"})
        if ref.get("ok"):
            # the recorded recovery must itself be a sequence of enabled steps of the disk protocol, starting from the level-1 image
            pl = crashrun.proto_lines(len(index) - 1, [q for q in pts if not q.perm], [])
            root2 = os.path.join(recs[si]["work"], "n-%d-%d" % (si, p.idx), "lvl1")
            init = crashrun.proto_init_line(({root2 + k[len(recs[si]["root"]):]: v for k, v in p.snap[0].items()},
                                            {root2 + d[len(recs[si]["root"]):] for d in p.snap[1]}), root2)
            plines += [pl[0], init] + pl[1:]
        if not ref.get("ok"):
            # the level-1 verdict belongs to C02; nothing to compare against
            continue
        refm = (list(ref.get("m") or []) + ["?"] * crashrun.NKEYS)[:crashrun.NKEYS]
        ilines += crashrun.image_lines(len(index) - 1, pts, res)
        for q, r in zip(pts, res):
            m = (list(r.get("m") or []) + ["?"] * crashrun.NKEYS)[:crashrun.NKEYS]
            lines.append({"t": "cp", "idx": q.idx, "desc": q.desc, "ok": bool(r.get("ok")), "err": (r.get("err") or "")[:300], "m": m,
                          "kind": "nested", "ref": refm, "cont": (r.get("cont") or "")[:300]})
            n2 += 1
            nperm += 1 if q.perm else 0
            descs[crash.normalize_desc(q.desc).split(" removed=")[0]] += 1
    # depth three (sampled): level-2 images chosen one per kind of interrupted recovery step in turn; the real Open is recorded on each of them
    # once more, every syscall boundary inside THAT recovery is a level-3 image, the real recovery runs on each and must still produce the map of
    # the uninterrupted recovery of the level-1 image ("any number of interrupted attempts is equivalent to one")
    n3want = 120 if thorough else 16
    bykind = collections.OrderedDict()
    for ci, (rep, ref, pts, res) in enumerate(out):
        if ref is None or not ref.get("ok"):
            continue
        for q, r in zip(pts, res):
            if q.desc == "initial" or not r.get("ok"):
                continue
            bykind.setdefault(crash.normalize_desc(q.desc).split(" removed=")[0], []).append((ci, q))
    for lst in bykind.values():
        rng.shuffle(lst)
    picks = []
    while len(picks) < n3want and any(bykind.values()):
        for k in list(bykind):
            if bykind[k] and len(picks) < n3want:
                picks.append(bykind[k].pop())
    case_of = {}
    for i, (sname, idx1, desc1, cls) in enumerate(index):
        case_of[(sname, idx1)] = i

    def do3(pick):
        ci, q = pick
        rep, ref, pts, res = out[ci]
        c, si, p = rep
        sess2 = {"root": os.path.join(recs[si]["work"], "n-%d-%d" % (si, p.idx), "lvl1"), "work": os.path.join(recs[si]["work"], "n3-%d-%d-%d" % (si, p.idx, q.idx)),
                 "keys": recs[si]["keys"]}
        ref3, pts3, img3 = nested(binary, sess2, q, "l3")
        if ref3 is None:
            return pick, None, [], []
        sess3 = {"root": img3, "work": sess2["work"], "keys": recs[si]["keys"]}
        return pick, ref3, pts3, crashrun.recover_points(binary, sess3, pts3, tag="img3")

    n3 = 0
    descs3 = collections.Counter()
    for pick, ref3, pts3, res3 in common.parallel(do3, picks, nthreads=8):
        ci, q = pick
        rep, ref, pts, res = out[ci]
        c, si, p = rep
        case = case_of[(sessions[si][0], p.idx)]
        refm = (list(ref.get("m") or []) + ["?"] * crashrun.NKEYS)[:crashrun.NKEYS]
        if ref3 is None:
            o.report("nested3/recovery-hang", "recovery of a level-2 image hangs (session %s point %s '%s', then '%s')" % (sessions[si][0], p.idx, p.desc, q.desc),
                     {"steps": sessions[si][1], "idx": p.idx, "level2": q.desc})
            continue
        lines.append({"t": "reset", "case": case, "mode": "sync"})
        for q3, r3 in zip(pts3, res3):
            m = (list(r3.get("m") or []) + ["?"] * crashrun.NKEYS)[:crashrun.NKEYS]
            lines.append({"t": "cp", "idx": q3.idx, "desc": "[after kill at '%s'] %s" % (crash.normalize_desc(q.desc).split(" removed=")[0], q3.desc), "ok": bool(r3.get("ok")),
                          "err": (r3.get("err") or "")[:300], "m": m, "kind": "nested", "ref": refm, "cont": (r3.get("cont") or "")[:300]})
            n3 += 1
            descs3[crash.normalize_desc(q3.desc).split(" removed=")[0]] += 1
    o.extra["level3_images"] = n3
    o.extra["level3_from_level2_points"] = len(picks)
    o.extra["level3_kinds"] = dict(descs3.most_common(30))
    tp = os.path.join(common.scratch("cj-C10"), "judge.ndjson")
    common.write_ndjson(tp, lines)
    nok, bad, r = judge.judge_trace("CrashJudge.tla", "CrashJudge.cfg", tp, o, "nested crash-point judge", heap="4g")
    for b in bad:
        sname, idx1, desc1, cls = index[b["case"]] if 0 <= b.get("case", -1) < len(index) else ("?", -1, "?", "?")
        steps = dict(sessions).get(sname)
        d2 = crash.normalize_desc(re.sub(r"^\[after kill at '[^']*'\] ", "", b["desc"]))
        d2 = re.sub(r"removed=.*", "", d2).strip()
        sig = "nested/%s/%s/%s" % (d2, b["clause"], crash.normalize_err(b.get("err", "")))
        o.report(sig, "level-1 image: session %s after '%s' (class %s); kill inside recovery after '%s': %s; map %s; error %s" % (
            sname, desc1, cls, b["desc"], b["clause"], b.get("m"), b.get("err", "")[:200]), {"steps": steps, "idx": idx1, "level2": b["desc"]})
    pp = os.path.join(common.scratch("cj-C10"), "proto.ndjson")
    common.write_ndjson(pp, plines)
    pnok, pbad, pr = judge.judge_trace("DiskProtoTrace.tla", "DiskProtoTrace.cfg", pp, o, "disk protocol conformance of the recorded recoveries", heap="4g")
    seenp = set()
    for b in pbad:
        if b["clause"] in seenp:
            continue
        seenp.add(b["clause"])
        sname, idx1, desc1, cls = index[b["case"]] if 0 <= b.get("case", -1) < len(index) else ("?", -1, "?", "?")
        o.report("proto/%s" % b["clause"], "recovery of the level-1 image (session %s after '%s', class %s) takes a step the disk protocol does not enable: %s" % (
            sname, desc1, cls, b.get("ev", "")[:400]), {"steps": dict(sessions).get(sname), "idx": idx1})
    o.extra["recovery_protocol_steps_conforming"] = pnok
    # content level: RecMap / OpenFails of SimpleDBDisk.tla on every decoded level-2 image = what the real (second) recovery made of it
    isess = [(index[i][0], dict(sessions).get(index[i][0])) for i in range(len(index))]
    nibad = c02.judge_images(o, ilines, isess, "sync", "C10")
    log("[C10] %d level-3 images from %d level-2 images" % (n3, len(picks)))
    log("[C10] %d level-2 images (%d from other unlink orders): %s equal to the uninterrupted recovery, %d rejected" % (n2, nperm, nok, len(bad)))
    o.traces = len(reps)
    o.evaluations = n2
    o.nontrivial = n2 - descs.get("initial", 0)
    o.extra["level1_classes"] = len(classes)
    o.extra["level2_kinds"] = dict(descs.most_common(30))
    o.extra["unlink_order_images"] = nperm
    o.rule = ("evaluations = level-2 images = every completed mutating syscall inside the real Open of a representative level-1 crash image, plus "
              "images of other unlink orders inside RemoveAll; non-trivial = all but the unchanged initial image; level-1 representatives chosen "
              "per abstract disk class (WAL file stages, table stages, compaction flag state)")
    o.sample({"classes": list(classes)[:8]})
    o.assumptions = ["kill -9 model", "depth two at every syscall boundary of the representatives; depth three sampled (%d level-2 images, one per kind of interrupted step in turn)" % len(picks)]
    if n2 < 50:
        o.problem("vacuous run: only %d level-2 images" % n2)
    return o.finish()


def replay(path):
    log("replay of a nested crash point re-runs the whole check for the recorded session")
    return run("quick")
