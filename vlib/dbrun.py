"""Run 'db' driver cases in subprocesses (one process per batch, killable) and judge the white-box traces with TLC."""
import json
import os

import common
import judge
from common import MachineryError, log


def key_bytes(n=16):
    return [("key%02d" % i).encode() for i in range(n)]


def run_db_batch(binary, name, cases, gates=False, seed=1, timeout=300, keys=None, env=None, disk=False, dirstyle=""):
    """cases: list of step lists. Returns (trace_path, events). A crash / hang of the driver is an observable outcome of the code
    under test (background panic, dead-locked flusher): the trace written so far gets a final bgfail line."""
    work = common.scratch("db-" + name)
    trace = os.path.join(work, "trace.ndjson")
    keys = keys or key_bytes()
    ddir = os.path.join(work, "d")
    if disk:
        # O_DIRECT is refused by tmpfs: sessions with the direct-I/O WAL need a block-device file system (removed below)
        import tempfile
        ddir = tempfile.mkdtemp(prefix="verif-dio-", dir=os.environ.get("VERIF_DISK_SCRATCH", "/var/tmp"))
    inp = {"keys": [k.hex() for k in keys], "dir": ddir, "cases": [{"steps": c} for c in cases], "gates": gates, "seed": seed, "dirstyle": dirstyle}
    in_path = trace + ".in.json"
    with open(in_path, "w") as f:
        json.dump(inp, f)
    penv = dict(os.environ)
    penv.update(env or {})
    rc, out, err, to = common.run_proc([binary, "db", in_path, trace], timeout, env=penv)
    err_s = (err or b"").decode("utf-8", "replace")
    if to or rc != 0:
        if rc == 3 or rc == 4:       # the driver's own errors; 2 is a Go panic / fatal error (deadlock) of the code under test
            raise MachineryError("driver db failed: " + err_s[-2000:])
        msg = "hang: driver did not finish within %ds" % timeout if to else "process died rc=%s: %s" % (rc, _panic_line(err_s))
        with open(trace, "a") as f:
            f.write(json.dumps({"t": "bgfail", "msg": msg[:600]}) + "\n")
    import shutil
    shutil.rmtree(ddir, ignore_errors=True)
    return trace


def _panic_line(err):
    for line in err.splitlines():
        if "panic:" in line or "fatal error" in line or "error while" in line:
            return line.strip()[:400]
    return err.strip()[-300:]


def judge_db(trace, outcome, what, timeout=900):
    nok, bad, r = judge.judge_trace("SimpleDBTrace.tla", "SimpleDBTrace.cfg", trace, outcome, what, timeout=timeout, heap="4g")
    # notes (deviations from the selection policy of the pinned code) are counted, never reported
    notes = [b for b in bad if str(b.get("clause", "")).startswith("note:")]
    if notes:
        outcome.extra["policy_notes"] = outcome.extra.get("policy_notes", 0) + len(notes)
    bad = [b for b in bad if not str(b.get("clause", "")).startswith("note:")]
    return nok, bad, r


def context(trace, line, before=25, after=3):
    evs = []
    with open(trace) as f:
        for i, ln in enumerate(f, 1):
            if line - before <= i <= line + after:
                evs.append("%d: %s" % (i, ln.strip()))
    return evs


def case_events(trace, case):
    """events of one case (for replay payloads)"""
    out, cur = [], None
    with open(trace) as f:
        for ln in f:
            e = json.loads(ln)
            if e.get("t") == "reset":
                cur = e["case"]
            if cur == case:
                out.append(e)
    return out


def project_per_key(trace_path, out_path):
    """Black-box projection of a recorded history: inv/ret pairs only, one case per (case, key). Returns number of cases."""
    cases = {}
    order = []
    cur = None
    pend = {}
    with open(trace_path) as f:
        for ln in f:
            e = json.loads(ln)
            t = e.get("t")
            if t == "reset":
                cur = e["case"]
                pend = {}
            elif t == "inv":
                key = (cur, e["k"])
                if key not in cases:
                    cases[key] = []
                    order.append(key)
                cases[key].append({"t": "inv", "g": e["g"], "op": e["op"], "v": e["v"]})
                pend[e["g"]] = key
            elif t == "ret" and e["g"] in pend:
                key = pend.pop(e["g"])
                cases[key].append({"t": "ret", "g": e["g"], "r": e["r"]})
    n = 0
    index = []
    with open(out_path, "w") as f:
        for key in order:
            evs = cases[key]
            # a history cut by a crash may end with pending calls: drop the open invocations' missing returns by closing the case
            open_g = set()
            for e in evs:
                if e["t"] == "inv":
                    open_g.add(e["g"])
                else:
                    open_g.discard(e["g"])
            if open_g:
                evs = [e for e in evs if not (e["t"] == "inv" and e["g"] in open_g and e is [x for x in evs if x["t"] == "inv" and x["g"] == e["g"]][-1])]
            f.write(json.dumps({"t": "reset", "case": n}) + "\n")
            for e in evs:
                f.write(json.dumps(e) + "\n")
            index.append((key, len(evs)))
            n += 1
    return index


def judge_lin(lin_path, outcome, what, timeout=600):
    """strict acceptance by high-water mark; returns (accepted, hw, total_lines)"""
    r = common.tlc("KVLinTrace.tla", "KVLinTrace.cfg", workers=1, timeout=timeout, env_extra={"TRACE": lin_path}, heap="4g")
    outcome.add_tlc(r, what)
    if r.error:
        raise MachineryError("KVLinTrace: " + r.error)
    hw = None
    for line in r.prints:
        t, rest = common.parse_tla_print(line)
        if t == "HW":
            hw = int(rest)
    if hw is None:
        raise MachineryError("KVLinTrace printed no HW\n" + r.out[-1500:])
    total = sum(1 for _ in open(lin_path))
    return hw == total + 1, hw, total
