package main

import (
	"bytes"
	"errors"
	"fmt"
	"os"
	"path/filepath"
	"strings"

	"github.com/thomasjungblut/go-sstables/memstore"
	"github.com/thomasjungblut/go-sstables/recordio"
	rProto "github.com/thomasjungblut/go-sstables/recordio/proto"
	"github.com/thomasjungblut/go-sstables/skiplist"
	"github.com/thomasjungblut/go-sstables/sstables"
	"google.golang.org/protobuf/proto"
)

// input of the memstore engine: abstract programs + a concretization of ranks/tokens to bytes
type memIn struct {
	Keys     []string          `json:"keys"` // rank -> hex bytes (ascending byte order)
	Vals     map[string]string `json:"vals"` // token -> hex bytes ("EMPTY" -> "")
	Programs [][]memCall       `json:"programs"`
	Dir      string            `json:"dir"`
	WriteBuf int               `json:"wbuf"`
}

type memCall struct {
	Op string `json:"op"`
	K  int    `json:"k"`
	V  string `json:"v"`
}

type retainedVal struct {
	live []byte // the slice a Get returned
	copy []byte // what it held then
	at   int    // index of that call
}

func init() { register("memstore", runMemstore) }

func memErr(err error) string {
	switch {
	case err == nil:
		return "ok"
	case errors.Is(err, memstore.KeyAlreadyExists):
		return "KeyAlreadyExists"
	case errors.Is(err, memstore.KeyNotFound):
		return "KeyNotFound"
	case errors.Is(err, memstore.KeyTombstoned):
		return "KeyTombstoned"
	case errors.Is(err, memstore.KeyNil):
		return "KeyNil"
	case errors.Is(err, memstore.ValueNil):
		return "ValueNil"
	}
	return "error:" + err.Error()
}

func runMemstore(args []string) error {
	if len(args) != 2 {
		return fmt.Errorf("usage: memstore <in.json> <out.ndjson>")
	}
	var in memIn
	if err := readJSON(args[0], &in); err != nil {
		return err
	}
	tr, err := newTrace(args[1])
	if err != nil {
		return err
	}
	defer tr.close()

	keys := make([][]byte, len(in.Keys))
	for i, h := range in.Keys {
		keys[i] = unhex(h)
	}
	vals := map[string][]byte{}
	valTok := func(b []byte) string {
		if b == nil {
			return "NIL"
		}
		for t, v := range vals {
			if bytes.Equal(v, b) {
				return t
			}
		}
		return fmt.Sprintf("UNKNOWN:%x", b)
	}
	zeroTok := func(b []byte) string {
		if len(b) == 0 {
			return "ZERO"
		}
		return valTok(b)
	}
	for t, h := range in.Vals {
		vals[t] = unhex(h)
	}
	keyRank := func(b []byte) int {
		for i, k := range keys {
			if bytes.Equal(k, b) {
				return i
			}
		}
		return -2
	}
	kb := func(r int) []byte {
		if r < 0 {
			return nil
		}
		return keys[r]
	}
	vb := func(t string) []byte {
		if t == "NIL" {
			return nil
		}
		return vals[t]
	}

	for ci, prog := range in.Programs {
		tr.emit(M{"t": "reset", "case": ci})
		ms := memstore.NewMemStore()
		// every other program hands over its keys in ONE reused buffer for the lookup-only and delete calls (a caller that decodes keys
		// into a scratch buffer); writes that may retain the key get their own copy
		scratchKey := make([]byte, 0, 64)
		var retained []retainedVal
		for cj, c := range prog {
			k, v := kb(c.K), vb(c.V)
			if ci%2 == 1 && k != nil {
				switch c.Op {
				case "Delete", "DeleteIfExists", "Get", "Contains", "IsTombstoned":
					scratchKey = append(scratchKey[:0], k...)
					k = scratchKey
				default:
					k = append([]byte{}, k...)
				}
			}
			var r string
			switch c.Op {
			case "Add":
				r = memErr(ms.Add(k, v))
			case "Upsert":
				r = memErr(ms.Upsert(k, v))
			case "Delete":
				r = memErr(ms.Delete(k))
			case "DeleteIfExists":
				r = memErr(ms.DeleteIfExists(k))
			case "Tombstone":
				r = memErr(ms.Tombstone(k))
			case "Get":
				got, err := ms.Get(k)
				if err != nil {
					r = memErr(err)
				} else {
					r = valTok(got)
					pokeReturned(got)
					// what a Get handed out belongs to the caller: it is looked at again after every later call of the program
					if len(retained) < 64 {
						retained = append(retained, retainedVal{got, append([]byte(nil), got...), cj})
					}
				}
			case "Contains":
				r = fmt.Sprint(ms.Contains(k))
			case "IsTombstoned":
				r = fmt.Sprint(ms.IsTombstoned(k))
			default:
				return fmt.Errorf("unknown op %q", c.Op)
			}
			for _, rv := range retained {
				if rv.at != cj && !bytes.Equal(rv.live, rv.copy) && r != "" && !strings.HasPrefix(r, "changed:") {
					r = fmt.Sprintf("changed:result of call %d altered by a later call", rv.at)
				}
			}
			tr.emit(M{"t": "call", "op": c.Op, "k": c.K, "v": c.V, "kl": len(k), "vl": len(v), "r": r,
				"size": ms.Size(), "est": capEst(ms.EstimatedSizeInBytes())})
		}
		// iteration
		out := [][]any{}
		it := ms.SStableIterator()
		for {
			k, v, err := it.Next()
			if errors.Is(err, sstables.Done) {
				break
			}
			if err != nil {
				out = append(out, []any{-3, "error:" + err.Error()})
				break
			}
			out = append(out, []any{keyRank(k), valTok(v)})
		}
		tr.emit(M{"t": "iter", "out": out})
		// both flush variants, read back through the table reader
		for _, tomb := range []bool{false, true} {
			dir := filepath.Join(in.Dir, fmt.Sprintf("c%d_%v", ci, tomb))
			if err := os.MkdirAll(dir, 0o700); err != nil {
				return err
			}
			opts := []sstables.WriterOption{sstables.WriteBasePath(dir)}
			if in.WriteBuf > 0 {
				opts = append(opts, sstables.WriteBufferSizeBytes(in.WriteBuf))
			}
			var ferr error
			if tomb {
				ferr = ms.FlushWithTombstones(opts...)
			} else {
				ferr = ms.Flush(opts...)
			}
			res := [][]any{}
			es := ""
			if ferr != nil {
				es = ferr.Error()
			} else {
				rd, err := sstables.NewSSTableReader(sstables.ReadBasePath(dir), sstables.ReadWithKeyComparator(skiplist.BytesComparator{}))
				if err != nil {
					es = "reader:" + err.Error()
				} else {
					sc, err := rd.Scan()
					if err != nil {
						es = "scan:" + err.Error()
					} else {
						for {
							k, v, err := sc.Next()
							if errors.Is(err, sstables.Done) {
								break
							}
							if err != nil {
								es = "next:" + err.Error()
								break
							}
							res = append(res, []any{keyRank(k), zeroTok(v)})
						}
					}
					// metadata must agree with what was flushed
					if es == "" && int(rd.MetaData().NumRecords) != len(res) {
						es = fmt.Sprintf("metadata NumRecords=%d but %d records read", rd.MetaData().NumRecords, len(res))
					}
					rd.Close()
				}
			}
			tr.emit(M{"t": "flush", "tomb": tomb, "err": es, "out": res})
			os.RemoveAll(dir)
		}
	}
	return nil
}

// the trace judge multiplies the estimate by 116 in 32-bit integers: cap it (a value wrapped below zero stays far out of range)
func capEst(x uint64) int {
	if x > 10000000 {
		return 10000000
	}
	return int(x)
}

// ---- engine "memflush": memstore.Flush / FlushWithTombstones while the stream writer's data or index writer fails at a position (C11)

type memflushCase struct {
	Entries [][2]any `json:"entries"` // [rank, token|"NIL"]
	Tomb    bool     `json:"tomb"`
	Which   string   `json:"which"` // data | index
	Pos     int      `json:"pos"`
}

type memflushIn struct {
	Keys  []string          `json:"keys"`
	Vals  map[string]string `json:"vals"`
	Dir   string            `json:"dir"`
	Cases []memflushCase    `json:"cases"`
}

func init() { register("memflush", runMemflush) }

type countingFailData struct {
	recordio.WriterI
	n, at     int
	hit       *bool
	failClose bool // the final flush inside Close fails (the buffered tail cannot be written)
}

func (f *countingFailData) Close() error {
	err := f.WriterI.Close()
	if f.failClose {
		*f.hit = true
		return errors.New("injected failure while flushing in Close")
	}
	return err
}

func (f *countingFailData) Write(r []byte) (uint64, error) {
	if f.n == f.at {
		f.n++
		*f.hit = true
		return 0, errors.New("injected data append failure")
	}
	f.n++
	return f.WriterI.Write(r)
}

type countingFailIndex struct {
	rProto.WriterI
	n, at     int
	hit       *bool
	failClose bool
}

func (f *countingFailIndex) Close() error {
	err := f.WriterI.Close()
	if f.failClose {
		*f.hit = true
		return errors.New("injected failure while flushing in Close")
	}
	return err
}

func (f *countingFailIndex) Write(m proto.Message) (uint64, error) {
	if f.n == f.at {
		f.n++
		*f.hit = true
		return 0, errors.New("injected index append failure")
	}
	f.n++
	return f.WriterI.Write(m)
}

func runMemflush(args []string) error {
	var in memflushIn
	if err := readJSON(args[0], &in); err != nil {
		return err
	}
	tr, err := newTrace(args[1])
	if err != nil {
		return err
	}
	defer tr.close()
	keys := make([][]byte, len(in.Keys))
	for i, h := range in.Keys {
		keys[i] = unhex(h)
	}
	for ci, c := range in.Cases {
		ms := memstore.NewMemStore()
		for _, e := range c.Entries {
			k := keys[int(e[0].(float64))]
			if tok := e[1].(string); tok == "NIL" {
				ms.Tombstone(k)
			} else {
				ms.Upsert(k, unhex(in.Vals[tok]))
			}
		}
		hit := false
		sstables.VerifOnWriterOpen = func(w *sstables.SSTableStreamWriter) {
			switch c.Which {
			case "data":
				w.VerifWrapWriters(func(d recordio.WriterI) recordio.WriterI { return &countingFailData{WriterI: d, at: c.Pos, hit: &hit} }, nil)
			case "dataclose":
				w.VerifWrapWriters(func(d recordio.WriterI) recordio.WriterI {
					return &countingFailData{WriterI: d, at: -1, hit: &hit, failClose: true}
				}, nil)
			case "indexclose":
				w.VerifWrapWriters(nil, func(i rProto.WriterI) rProto.WriterI {
					return &countingFailIndex{WriterI: i, at: -1, hit: &hit, failClose: true}
				})
			default:
				w.VerifWrapWriters(nil, func(i rProto.WriterI) rProto.WriterI { return &countingFailIndex{WriterI: i, at: c.Pos, hit: &hit} })
			}
		}
		dir := filepath.Join(in.Dir, fmt.Sprintf("mf%d", ci))
		os.MkdirAll(dir, 0o700)
		var ferr error
		if c.Tomb {
			ferr = ms.FlushWithTombstones(sstables.WriteBasePath(dir))
		} else {
			ferr = ms.Flush(sstables.WriteBasePath(dir))
		}
		sstables.VerifOnWriterOpen = nil
		es := ""
		if ferr != nil {
			es = ferr.Error()
		}
		tr.emit(M{"t": "memflush", "case": ci, "hit": hit, "err": es})
		os.RemoveAll(dir)
	}
	return nil
}
