package main

import (
	"strconv"
	"strings"
	"bytes"
	"encoding/binary"
	"errors"
	"fmt"
	"io"
	"os"
	"path/filepath"

	"github.com/kaitai-io/kaitai_struct_go_runtime/kaitai"
	"github.com/thomasjungblut/go-sstables/kaitai/gokaitai"
	"github.com/thomasjungblut/go-sstables/recordio"
)

// engine "kaitai" (C20): three observers of one written file - the native sequential reader, the Kaitai-generated reader and an
// independent walk over the v4 framing - log per record (nil flag, stored payload length, decoded payload token).

type kaitaiCase struct {
	Recs []string `json:"recs"` // tokens
	Comp int      `json:"comp"`
	WBuf int      `json:"wbuf"`
}

type kaitaiIn struct {
	Recs  map[string]string `json:"recs"`
	Dir   string            `json:"dir"`
	Cases []kaitaiCase      `json:"cases"`
}

func init() { register("kaitai", runKaitai) }

func runKaitai(args []string) error {
	var in kaitaiIn
	if err := readJSON(args[0], &in); err != nil {
		return err
	}
	tr, err := newTrace(args[1])
	if err != nil {
		return err
	}
	defer tr.close()
	recs := map[string][]byte{}
	tokOf := map[string]string{}
	for t, h := range in.Recs {
		recs[t] = unhex(h)
		tokOf[string(recs[t])] = t
	}
	rb := func(t string) []byte {
		switch t {
		case "NIL":
			return nil
		case "EMPTY":
			return []byte{}
		}
		if strings.HasPrefix(t, "ZEROS:") { // a payload of n zero bytes (records far above 100 MiB without shipping them through JSON)
			n, _ := strconv.Atoi(t[len("ZEROS:"):])
			return make([]byte, n)
		}
		return recs[t]
	}
	tokNonNil := func(b []byte) string {
		if len(b) == 0 {
			return "EMPTY"
		}
		if len(b) > 1<<20 && len(bytes.Trim(b, "\x00")) == 0 {
			return fmt.Sprintf("ZEROS:%d", len(b))
		}
		if t, ok := tokOf[string(b)]; ok {
			return t
		}
		return fmt.Sprintf("UNKNOWN(len=%d)", len(b))
	}
	// the compression codes the writer can emit: by name, and by probing which numeric codes the writer accepts at all
	accepted := []int{}
	for code := 0; code < 64; code++ {
		func() {
			defer func() { recover() }()
			p := filepath.Join(in.Dir, fmt.Sprintf("probe%d.rio", code))
			defer os.Remove(p)
			w, err := recordio.NewFileWriter(recordio.Path(p), recordio.CompressionType(code))
			if err != nil {
				return
			}
			if err := w.Open(); err != nil {
				return
			}
			_, werr := w.Write([]byte("probe-probe-probe-probe"))
			if cerr := w.Close(); werr == nil && cerr == nil {
				accepted = append(accepted, code)
			}
		}()
	}
	tr.emit(M{"t": "codes", "accepted": accepted, "writer": M{"none": recordio.CompressionTypeNone, "gzip": recordio.CompressionTypeGZIP, "snappy": recordio.CompressionTypeSnappy,
		"lzw": recordio.CompressionTypeLzw}, "generated": M{"none": int(gokaitai.RecordioV4_Compression__None), "gzip": int(gokaitai.RecordioV4_Compression__Gzip),
		"snappy": int(gokaitai.RecordioV4_Compression__Snappy)}})
	for ci, c := range in.Cases {
		path := filepath.Join(in.Dir, fmt.Sprintf("k%d.rio", ci))
		opts := []recordio.FileWriterOption{recordio.Path(path), recordio.CompressionType(c.Comp)}
		if c.WBuf > 0 {
			opts = append(opts, recordio.BufferSizeBytes(c.WBuf))
		}
		w, err := recordio.NewFileWriter(opts...)
		if err != nil {
			return err
		}
		if err := w.Open(); err != nil {
			return err
		}
		for _, t := range c.Recs {
			if _, err := w.Write(rb(t)); err != nil {
				return err
			}
		}
		if err := w.Close(); err != nil {
			return err
		}
		data, _ := os.ReadFile(path)
		// observer 1: native reader
		native := []string{}
		nr, err := recordio.NewFileReaderWithPath(path)
		if err == nil {
			err = nr.Open()
		}
		nerr := ""
		if err != nil {
			nerr = err.Error()
		} else {
			for {
				b, err := nr.ReadNext()
				if errors.Is(err, io.EOF) {
					break
				}
				if err != nil {
					nerr = err.Error()
					break
				}
				if b == nil {
					native = append(native, "NIL")
				} else {
					native = append(native, tokNonNil(b))
				}
			}
			nr.Close()
		}
		// observer 2: independent framing walk -> layout (nil, ulen, clen)
		layout := [][]int{}
		for off := 8; off < len(data); {
			hl := headerLen(data[off:])
			if hl == 0 {
				break
			}
			_, k := binary.Uvarint(data[off:])
			isNil := int(data[off+k])
			ulen, k2 := binary.Uvarint(data[off+k+1:])
			clen, _ := binary.Uvarint(data[off+k+1+k2:])
			layout = append(layout, []int{isNil, int(ulen), int(clen)})
			stored := int(ulen)
			if c.Comp != 0 {
				stored = int(clen)
			}
			if isNil == 1 {
				stored = 0
			}
			off += hl + stored
		}
		// observer 3: the Kaitai-generated reader
		kr := gokaitai.NewRecordioV4()
		kerr := ""
		krecs := [][]any{}
		func() {
			defer func() {
				if r := recover(); r != nil {
					kerr = fmt.Sprintf("panic: %v", r)
				}
			}()
			if err := kr.Read(kaitai.NewStream(bytes.NewReader(data)), nil, kr); err != nil {
				kerr = err.Error()
			}
		}()
		kcomp := -1
		if kr.FileHeader != nil {
			kcomp = int(kr.FileHeader.CompressionType)
		}
		comp, _ := recordio.NewCompressorForType(c.Comp)
		for _, r := range kr.Record {
			tok := ""
			if r.RecordNil == 1 {
				tok = "NIL"
			} else if comp != nil {
				dec, err := comp.Decompress(r.Payload)
				if err != nil {
					tok = "UNDECODABLE"
				} else {
					tok = tokNonNil(dec)
				}
			} else {
				tok = tokNonNil(r.Payload)
			}
			krecs = append(krecs, []any{int(r.RecordNil), len(r.Payload), tok})
		}
		tr.emit(M{"t": "kaitai", "case": ci, "comp": c.Comp, "written": c.Recs, "native": native, "nativeErr": nerr, "layout": layout,
			"kaitai": krecs, "kaitaiErr": kerr, "kaitaiComp": kcomp})
		os.Remove(path)
	}
	return nil
}
