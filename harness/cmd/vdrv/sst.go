package main

import (
	"errors"
	"fmt"
	"os"
	"path/filepath"

	"github.com/thomasjungblut/go-sstables/recordio"
	rProto "github.com/thomasjungblut/go-sstables/recordio/proto"
	"github.com/thomasjungblut/go-sstables/skiplist"
	"github.com/thomasjungblut/go-sstables/sstables"
	"google.golang.org/protobuf/proto"
)

// engine "sst": writes tables through the real writers (optionally with injected I/O faults at the data / index append step),
// opens them with every requested reader configuration and probes every rank and bound. Observations only (C03, C15).

type sstWrite struct {
	K     int    `json:"k"`
	V     string `json:"v"`
	Fault string `json:"fault"` // "", "data", "index"
}

type sstReader struct {
	Loader   string `json:"loader"` // slice | skiplist | map | disk
	RBuf     int    `json:"rbuf"`
	HashMode string `json:"hash"` // load | read | none
}

type sstCase struct {
	Writes  []sstWrite  `json:"writes"`
	Writer  string      `json:"writer"` // stream | skiplist
	DComp   int         `json:"dcomp"`
	IComp   int         `json:"icomp"`
	Bloom   bool        `json:"bloom"`
	BloomN  uint64      `json:"bloomn"`
	WBuf    int         `json:"wbuf"`
	Readers []sstReader `json:"readers"`
	Probes  []int       `json:"probes"` // ranks probed with Contains / Get / ScanStartingAt
	Ranges  [][2]int    `json:"ranges"` // (lo, hi) pairs probed with ScanRange
}

type sstIn struct {
	Keys  []string          `json:"keys"`
	Vals  map[string]string `json:"vals"`
	Dir   string            `json:"dir"`
	Cases []sstCase         `json:"cases"`
}

func init() { register("sst", runSST) }

type strMapper struct{}

func (strMapper) MapBytes(b []byte) string { return string(b) }

type failingDataWriter struct {
	recordio.WriterI
	failNext *bool
}

func (f *failingDataWriter) Write(r []byte) (uint64, error) {
	if *f.failNext {
		*f.failNext = false
		return 0, errors.New("injected data append failure")
	}
	return f.WriterI.Write(r)
}

type failingIndexWriter struct {
	rProto.WriterI
	failNext *bool
}

func (f *failingIndexWriter) Write(m proto.Message) (uint64, error) {
	if *f.failNext {
		*f.failNext = false
		return 0, errors.New("injected index append failure")
	}
	return f.WriterI.Write(m)
}

func runSST(args []string) error {
	if len(args) != 2 {
		return fmt.Errorf("usage: sst <in.json> <out.ndjson>")
	}
	var in sstIn
	if err := readJSON(args[0], &in); err != nil {
		return err
	}
	tr, err := newTrace(args[1])
	if err != nil {
		return err
	}
	defer tr.close()
	keys := make([][]byte, len(in.Keys))
	rank := map[string]int{}
	for i, h := range in.Keys {
		keys[i] = unhex(h)
		rank[string(keys[i])] = i
	}
	vals := map[string][]byte{}
	tokOf := map[string]string{}
	for t, h := range in.Vals {
		vals[t] = unhex(h)
		tokOf[string(vals[t])] = t
	}
	vb := func(t string) []byte {
		if t == "NIL" {
			return nil
		}
		return vals[t]
	}
	vt := func(b []byte) string {
		if b == nil {
			return "NIL"
		}
		if len(b) == 0 {
			return "EMPTY"
		}
		if t, ok := tokOf[string(b)]; ok {
			return t
		}
		return fmt.Sprintf("UNKNOWN:%x", b)
	}
	rk := func(b []byte) int {
		if r, ok := rank[string(b)]; ok {
			return r
		}
		return -2
	}
	// returns the drained pairs and an error text ("" = clean end)
	drain := func(it sstables.SSTableIteratorI, err error) ([][]any, string) {
		out := [][]any{}
		if err != nil {
			return out, "err:" + err.Error()
		}
		for {
			k, v, err := it.Next()
			if errors.Is(err, sstables.Done) {
				return out, ""
			}
			if err != nil {
				return out, "err:" + err.Error()
			}
			out = append(out, []any{rk(k), vt(v)})
			if len(out) > 100000 {
				return out, "err:iterator does not end"
			}
		}
	}
	emitScan := func(m M, it sstables.SSTableIteratorI, err error) {
		out, e := drain(it, err)
		m["out"], m["err"] = out, e
		tr.emit(m)
	}

	for ci, c := range in.Cases {
		dir := filepath.Join(in.Dir, fmt.Sprintf("t%d", ci))
		if err := os.MkdirAll(dir, 0o700); err != nil {
			return err
		}
		tr.emit(M{"t": "reset", "case": ci})
		wopts := []sstables.WriterOption{sstables.WriteBasePath(dir), sstables.WithKeyComparator(skiplist.BytesComparator{}),
			sstables.DataCompressionType(c.DComp), sstables.IndexCompressionType(c.IComp)}
		if c.WBuf > 0 {
			wopts = append(wopts, sstables.WriteBufferSizeBytes(c.WBuf))
		}
		if c.BloomN > 0 {
			wopts = append(wopts, sstables.BloomExpectedNumberOfElements(c.BloomN))
		}
		closeErr := ""
		if c.Writer == "skiplist" {
			sl := skiplist.NewSkipListMap[[]byte, []byte](skiplist.BytesComparator{})
			for _, w := range c.Writes {
				sl.Insert(keys[w.K], vb(w.V))
				tr.emit(M{"t": "write", "k": w.K, "v": w.V, "fault": "", "r": "ok", "hit": false})
			}
			w, err := sstables.NewSSTableSimpleWriter(wopts...)
			if err != nil {
				return err
			}
			if err := w.WriteSkipListMap(sl); err != nil {
				closeErr = err.Error()
			}
		} else {
			failData, failIndex := false, false
			sstables.VerifOnWriterOpen = func(w *sstables.SSTableStreamWriter) {
				w.VerifWrapWriters(func(d recordio.WriterI) recordio.WriterI { return &failingDataWriter{d, &failData} },
					func(i rProto.WriterI) rProto.WriterI { return &failingIndexWriter{i, &failIndex} })
			}
			w, err := sstables.NewSSTableStreamWriter(wopts...)
			if err != nil {
				return err
			}
			if err := w.Open(); err != nil {
				return err
			}
			sstables.VerifOnWriterOpen = nil
			for _, wr := range c.Writes {
				failData, failIndex = wr.Fault == "data", wr.Fault == "index"
				err := w.WriteNext(keys[wr.K], vb(wr.V))
				injected := (wr.Fault == "data" && !failData) || (wr.Fault == "index" && !failIndex)
				failData, failIndex = false, false
				r := "ok"
				if err != nil {
					if injected {
						r = "ioerr"
					} else {
						r = "rejected"
					}
				}
				tr.emit(M{"t": "write", "k": wr.K, "v": wr.V, "fault": wr.Fault, "r": r, "hit": injected})
			}
			if err := w.Close(); err != nil {
				closeErr = err.Error()
			}
		}
		fsize := func(n string) int {
			st, err := os.Stat(filepath.Join(dir, n))
			if err != nil {
				return -1
			}
			return int(st.Size())
		}
		for ri, rc := range c.Readers {
			ropts := []sstables.ReadOption{sstables.ReadBasePath(dir), sstables.ReadWithKeyComparator(skiplist.BytesComparator{})}
			if rc.RBuf > 0 {
				ropts = append(ropts, sstables.ReadBufferSizeBytes(rc.RBuf))
			}
			rb := rc.RBuf
			if rb == 0 {
				rb = 4096
			}
			switch rc.Loader {
			case "skiplist":
				ropts = append(ropts, sstables.ReadIndexLoader(&sstables.SkipListIndexLoader{KeyComparator: skiplist.BytesComparator{}, ReadBufferSize: rb}))
			case "map":
				ropts = append(ropts, sstables.ReadIndexLoader(&sstables.MapKeyIndexLoader[string]{ReadBufferSize: rb, Mapper: strMapper{}}))
			case "disk":
				ropts = append(ropts, sstables.ReadIndexLoader(&sstables.DiskIndexLoader{}))
			case "slice":
				ropts = append(ropts, sstables.ReadIndexLoader(&sstables.SliceKeyIndexLoader{ReadBufferSize: rb}))
			}
			switch rc.HashMode {
			case "read":
				ropts = append(ropts, sstables.SkipHashCheckOnLoad(), sstables.EnableHashCheckOnReads())
			case "none":
				ropts = append(ropts, sstables.SkipHashCheckOnLoad())
			}
			rd, err := sstables.NewSSTableReader(ropts...)
			if err != nil {
				tr.emit(M{"t": "reader", "i": ri, "cfg": rc, "err": err.Error(), "closeErr": closeErr, "meta": M{"n": -1, "nulls": -1, "min": -1, "max": -1, "sizesOk": false}})
				continue
			}
			md := rd.MetaData()
			minr, maxr := -1, -1
			if md.NumRecords > 0 {
				minr, maxr = rk(md.MinKey), rk(md.MaxKey)
			}
			tr.emit(M{"t": "reader", "i": ri, "cfg": rc, "err": "", "closeErr": closeErr,
				"meta": M{"n": int(md.NumRecords), "nulls": int(md.NullValues), "min": minr, "max": maxr,
					"sizesOk": int(md.DataBytes) == fsize(sstables.DataFileName) && int(md.IndexBytes) == fsize(sstables.IndexFileName) &&
						md.TotalBytes == md.DataBytes+md.IndexBytes}})
			for _, p := range c.Probes {
				ok, err := rd.Contains(keys[p])
				if err != nil {
					tr.emit(M{"t": "contains", "k": p, "r": "err:" + err.Error()})
				} else {
					tr.emit(M{"t": "contains", "k": p, "r": fmt.Sprint(ok)})
				}
				v, err := rd.Get(keys[p])
				switch {
				case errors.Is(err, sstables.NotFound):
					tr.emit(M{"t": "get", "k": p, "r": "NotFound"})
				case err != nil:
					tr.emit(M{"t": "get", "k": p, "r": "err:" + err.Error()})
				default:
					tr.emit(M{"t": "get", "k": p, "r": vt(v)})
				}
				it, err2 := rd.ScanStartingAt(keys[p])
				emitScan(M{"t": "scanfrom", "k": p}, it, err2)
			}
			{
				it, err2 := rd.Scan()
				emitScan(M{"t": "scan"}, it, err2)
			}
			for _, r := range c.Ranges {
				it, err2 := rd.ScanRange(keys[r[0]], keys[r[1]])
				emitScan(M{"t": "scanrange", "lo": r[0], "hi": r[1]}, it, err2)
			}
			rd.Close()
		}
		os.RemoveAll(dir)
	}
	return nil
}
