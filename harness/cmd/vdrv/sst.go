package main

import (
	"bytes"
	"encoding/binary"
	"errors"
	"fmt"
	"os"
	"path/filepath"
	"strconv"

	"github.com/thomasjungblut/go-sstables/recordio"
	rProto "github.com/thomasjungblut/go-sstables/recordio/proto"
	"github.com/thomasjungblut/go-sstables/skiplist"
	"github.com/thomasjungblut/go-sstables/sstables"
	"google.golang.org/protobuf/proto"
)

// engine "sst": writes tables through the real writers (optionally with injected I/O faults at the data / index append step),
// opens them with every requested reader configuration and probes every rank and bound. Observations only (C03, C15).

type sstWrite struct {
	K     int    `json:"k"`
	V     string `json:"v"`
	Fault string `json:"fault"` // "", "data", "index"
	Alt   bool   `json:"alt"`   // with the case-insensitive comparator: offer the UPPER-case spelling of the key (same rank, other bytes)
}

// a comparator under which keys that differ only in letter case are equal (keys of one rank then have several spellings)
type nocaseCmp struct{}

func (nocaseCmp) Compare(a, b []byte) int { return bytes.Compare(bytes.ToLower(a), bytes.ToLower(b)) }

// byte order, but the result is a magnitude (memcmp style: < 0, 0, > 0 - not -1, 0, 1), which is all the comparator contract promises
type magCmp struct{}

func (magCmp) Compare(a, b []byte) int { return 5 * bytes.Compare(a, b) }

type sstReader struct {
	Loader   string `json:"loader"` // slice | skiplist | map | disk
	RBuf     int    `json:"rbuf"`
	HashMode string `json:"hash"` // load | read | none
}

type sstCase struct {
	Writes  []sstWrite     `json:"writes"`
	Writer  string         `json:"writer"` // stream | skiplist
	DComp   int            `json:"dcomp"`
	IComp   int            `json:"icomp"`
	Bloom   bool           `json:"bloom"`
	BloomN  uint64         `json:"bloomn"`
	BloomFP float64        `json:"bloomfp"` // > 0: BloomFalsePositiveProbability
	WBuf    int            `json:"wbuf"`
	Readers []sstReader    `json:"readers"`
	Probes  []int          `json:"probes"` // ranks probed with Contains / Get / ScanStartingAt
	Ranges  [][2]int       `json:"ranges"` // (lo, hi) pairs probed with ScanRange
	Cmp     string         `json:"cmp"`    // "" (bytes) | "nocase": writer and readers use the case-insensitive comparator | "mag": byte order reported as magnitudes
	V0      bool           `json:"v0"`     // rewrite the table in the legacy (version 0) layout before it is read (tables without nil / empty values, no faults)
	KeyLen  map[string]int `json:"keylen"` // rank -> length: the key of that rank is padded with zero bytes to this length (keeps the rank order)
}

type sstIn struct {
	Keys  []string          `json:"keys"`
	Vals  map[string]string `json:"vals"`
	Dir   string            `json:"dir"`
	Cases []sstCase         `json:"cases"`
}

func init() { register("sst", runSST) }

type strMapper struct{}

func (strMapper) MapBytes(b []byte) string { return string(b) }

type failingDataWriter struct {
	recordio.WriterI
	failNext *bool
}

func (f *failingDataWriter) Write(r []byte) (uint64, error) {
	if *f.failNext {
		*f.failNext = false
		return 0, errors.New("injected data append failure")
	}
	return f.WriterI.Write(r)
}

type failingIndexWriter struct {
	rProto.WriterI
	failNext *bool
}

func (f *failingIndexWriter) Write(m proto.Message) (uint64, error) {
	if *f.failNext {
		*f.failNext = false
		return 0, errors.New("injected index append failure")
	}
	return f.WriterI.Write(m)
}

// a panic of the library while it loads a table it wrote itself is an outcome of the code under test (judged as a failed open)
func openReaderSafe(ropts ...sstables.ReadOption) (rd sstables.SSTableReaderI, err error) {
	defer func() {
		if r := recover(); r != nil {
			rd, err = nil, fmt.Errorf("panic: %v", r)
		}
	}()
	return sstables.NewSSTableReader(ropts...)
}

// the common length of all keys, or -1
func uniformKeyLen(keys [][]byte) int {
	if len(keys) == 0 {
		return -1
	}
	n := len(keys[0])
	for _, k := range keys {
		if len(k) != n {
			return -1
		}
	}
	return n
}

func runSST(args []string) error {
	if len(args) != 2 {
		return fmt.Errorf("usage: sst <in.json> <out.ndjson>")
	}
	var in sstIn
	if err := readJSON(args[0], &in); err != nil {
		return err
	}
	tr, err := newTrace(args[1])
	if err != nil {
		return err
	}
	defer tr.close()
	keys := make([][]byte, len(in.Keys))
	rank := map[string]int{}
	for i, h := range in.Keys {
		keys[i] = unhex(h)
		rank[string(keys[i])] = i
	}
	vals := map[string][]byte{}
	tokOf := map[string]string{}
	for t, h := range in.Vals {
		vals[t] = unhex(h)
		tokOf[string(vals[t])] = t
	}
	vb := func(t string) []byte {
		if t == "NIL" {
			return nil
		}
		return vals[t]
	}
	vt := func(b []byte) string {
		if b == nil {
			return "NIL"
		}
		if len(b) == 0 {
			return "EMPTY"
		}
		if t, ok := tokOf[string(b)]; ok {
			return t
		}
		return fmt.Sprintf("UNKNOWN:%x", b)
	}
	rk := func(b []byte) int {
		if r, ok := rank[string(b)]; ok {
			return r
		}
		return -2
	}
	// returns the drained pairs and an error text ("" = clean end)
	ndrain := 0
	drain := func(it sstables.SSTableIteratorI, err error) ([][]any, string) {
		out := [][]any{}
		if err != nil {
			return out, "err:" + err.Error()
		}
		// every other iteration COLLECTS what Next hands out and looks at it again when the iteration is over (what a caller that gathers a scan
		// into a slice does): an entry that no longer reads as it did when it was returned is recorded as it reads now.  The other iterations
		// scribble on every returned slice at once (the library must not go on using it).
		ndrain++
		retain := ndrain%2 == 0
		var keptK, keptV [][]byte
		late := func() {
			for i := range keptK {
				if i < len(out) {
					out[i] = []any{rk(keptK[i]), vt(keptV[i])}
				}
				pokeReturned(keptK[i])
				pokeReturned(keptV[i])
			}
		}
		for {
			k, v, err := it.Next()
			if errors.Is(err, sstables.Done) {
				late()
				return out, ""
			}
			if err != nil {
				late()
				return out, "err:" + err.Error()
			}
			out = append(out, []any{rk(k), vt(v)})
			if retain {
				keptK, keptV = append(keptK, k), append(keptV, v)
			} else {
				pokeReturned(k)
				pokeReturned(v)
			}
			if len(out) > 100000 {
				return out, "err:iterator does not end"
			}
		}
	}
	emitScan := func(m M, it sstables.SSTableIteratorI, err error) {
		out, e := drain(it, err)
		m["out"], m["err"] = out, e
		tr.emit(m)
	}

	for ci, c := range in.Cases {
		// tables are written to the same two directories over and over (each removed after its case): whatever a reader or an index loader remembers
		// about a path must not outlive the table that was there
		dir := filepath.Join(in.Dir, fmt.Sprintf("t%d", ci%2))
		os.RemoveAll(dir)
		if err := os.MkdirAll(dir, 0o700); err != nil {
			return err
		}
		tr.emit(M{"t": "reset", "case": ci})
		keys := keys
		if len(c.KeyLen) > 0 {
			keys = append([][]byte(nil), keys...)
			for rs, l := range c.KeyLen {
				r, _ := strconv.Atoi(rs)
				if r >= 0 && r < len(keys) && l > len(keys[r]) {
					k := append(append([]byte(nil), keys[r]...), make([]byte, l-len(keys[r]))...)
					keys[r] = k
					rank[string(k)] = r
				}
			}
		}
		var kcmp skiplist.Comparator[[]byte] = skiplist.BytesComparator{}
		spelled := map[int][]byte{} // rank -> the spelling that was accepted by the writer
		if c.Cmp == "mag" {
			kcmp = magCmp{}
		}
		if c.Cmp == "nocase" {
			kcmp = nocaseCmp{}
			for i, k := range keys {
				rank[string(bytes.ToUpper(k))] = i
			}
		}
		keyOf := func(k int) []byte {
			if b, ok := spelled[k]; ok {
				return b
			}
			return keys[k]
		}
		wopts := []sstables.WriterOption{sstables.WriteBasePath(dir), sstables.WithKeyComparator(kcmp),
			sstables.DataCompressionType(c.DComp), sstables.IndexCompressionType(c.IComp)}
		if c.WBuf > 0 {
			wopts = append(wopts, sstables.WriteBufferSizeBytes(c.WBuf))
		}
		if c.BloomN > 0 {
			wopts = append(wopts, sstables.BloomExpectedNumberOfElements(c.BloomN))
		}
		if c.BloomFP > 0 {
			wopts = append(wopts, sstables.EnableBloomFilter(), sstables.BloomFalsePositiveProbability(c.BloomFP))
		}
		closeErr := ""
		if c.Writer == "skiplist" {
			sl := skiplist.NewSkipListMap[[]byte, []byte](skiplist.BytesComparator{})
			for _, w := range c.Writes {
				sl.Insert(keys[w.K], vb(w.V))
				tr.emit(M{"t": "write", "k": w.K, "v": w.V, "fault": "", "r": "ok", "hit": false})
			}
			w, err := sstables.NewSSTableSimpleWriter(wopts...)
			if err != nil {
				return err
			}
			if err := w.WriteSkipListMap(sl); err != nil {
				closeErr = err.Error()
			}
		} else {
			failData, failIndex := false, false
			sstables.VerifOnWriterOpen = func(w *sstables.SSTableStreamWriter) {
				w.VerifWrapWriters(func(d recordio.WriterI) recordio.WriterI { return &failingDataWriter{d, &failData} },
					func(i rProto.WriterI) rProto.WriterI { return &failingIndexWriter{i, &failIndex} })
			}
			w, err := sstables.NewSSTableStreamWriter(wopts...)
			if err != nil {
				return err
			}
			if err := w.Open(); err != nil {
				return err
			}
			sstables.VerifOnWriterOpen = nil
			var keyScratch, valScratch []byte
			for _, wr := range c.Writes {
				failData, failIndex = wr.Fault == "data", wr.Fault == "index"
				wkey := keys[wr.K]
				if wr.Alt && c.Cmp == "nocase" {
					wkey = bytes.ToUpper(wkey)
				}
				// the caller's buffers are reused: the writer may keep nothing of them beyond the call
				keyScratch = append(keyScratch[:0], wkey...)
				var valArg []byte
				if v := vb(wr.V); v != nil {
					valScratch = append(valScratch[:0], v...)
					valArg = valScratch[:len(v):len(v)]
					if len(v) == 0 {
						valArg = []byte{}
					}
				}
				err := w.WriteNext(keyScratch[:len(wkey):len(wkey)], valArg)
				for i := range keyScratch {
					keyScratch[i] = 0xEE
				}
				for i := range valScratch {
					valScratch[i] = 0xEE
				}
				if err == nil {
					spelled[wr.K] = wkey
				}
				injected := (wr.Fault == "data" && !failData) || (wr.Fault == "index" && !failIndex)
				failData, failIndex = false, false
				r := "ok"
				if err != nil {
					if injected {
						r = "ioerr"
					} else {
						r = "rejected"
					}
				}
				tr.emit(M{"t": "write", "k": wr.K, "v": wr.V, "fault": wr.Fault, "r": r, "hit": injected})
			}
			if err := w.Close(); err != nil {
				closeErr = err.Error()
			}
		}
		isV0 := false
		if c.V0 && closeErr == "" && len(c.Writes) > 0 {
			plain := true
			var rows [][2]any
			for _, w := range c.Writes {
				if w.V == "NIL" || w.V == "EMPTY" || w.Fault != "" || (len(rows) > 0 && int(rows[len(rows)-1][0].(float64)) >= w.K) {
					plain = false
				}
				rows = append(rows, [2]any{float64(w.K), w.V})
			}
			if plain {
				if err := rewriteAsV0(dir, rows, keys, vb); err != nil {
					return fmt.Errorf("writing v0 table: %w", err)
				}
				isV0 = true
			}
		}
		fsize := func(n string) int {
			st, err := os.Stat(filepath.Join(dir, n))
			if err != nil {
				return -1
			}
			return int(st.Size())
		}
		for ri, rc := range c.Readers {
			ropts := []sstables.ReadOption{sstables.ReadBasePath(dir), sstables.ReadWithKeyComparator(kcmp)}
			if rc.RBuf > 0 {
				ropts = append(ropts, sstables.ReadBufferSizeBytes(rc.RBuf))
			}
			rb := rc.RBuf
			if rb == 0 {
				rb = 4096
			}
			switch rc.Loader {
			case "skiplist":
				ropts = append(ropts, sstables.ReadIndexLoader(&sstables.SkipListIndexLoader{KeyComparator: kcmp, ReadBufferSize: rb}))
			case "map":
				// the library's own fixed-width key mappers where every key of the universe has that width, a string mapper otherwise
				switch uniformKeyLen(keys) {
				case 4:
					ropts = append(ropts, sstables.ReadIndexLoader(&sstables.MapKeyIndexLoader[[4]byte]{ReadBufferSize: rb, Mapper: &sstables.Byte4KeyMapper{}}))
				case 20:
					ropts = append(ropts, sstables.ReadIndexLoader(&sstables.MapKeyIndexLoader[[20]byte]{ReadBufferSize: rb, Mapper: &sstables.Byte20KeyMapper{}}))
				default:
					ropts = append(ropts, sstables.ReadIndexLoader(&sstables.MapKeyIndexLoader[string]{ReadBufferSize: rb, Mapper: strMapper{}}))
				}
			case "disk":
				ropts = append(ropts, sstables.ReadIndexLoader(&sstables.DiskIndexLoader{}))
			case "slice":
				ropts = append(ropts, sstables.ReadIndexLoader(&sstables.SliceKeyIndexLoader{ReadBufferSize: rb}))
			}
			switch rc.HashMode {
			case "read":
				ropts = append(ropts, sstables.SkipHashCheckOnLoad(), sstables.EnableHashCheckOnReads())
			case "none":
				ropts = append(ropts, sstables.SkipHashCheckOnLoad())
			}
			rd, err := openReaderSafe(ropts...)
			if err != nil {
				tr.emit(M{"t": "reader", "i": ri, "cfg": rc, "err": err.Error(), "closeErr": closeErr, "v0": isV0, "meta": M{"n": -1, "nulls": -1, "min": -1, "max": -1, "sizesOk": false}})
				continue
			}
			md := rd.MetaData()
			minr, maxr := -1, -1
			if md.NumRecords > 0 {
				minr, maxr = rk(md.MinKey), rk(md.MaxKey)
			}
			tr.emit(M{"t": "reader", "i": ri, "cfg": rc, "err": "", "closeErr": closeErr, "v0": isV0,
				"meta": M{"n": int(md.NumRecords), "nulls": int(md.NullValues), "min": minr, "max": maxr,
					"sizesOk": int(md.DataBytes) == fsize(sstables.DataFileName) && int(md.IndexBytes) == fsize(sstables.IndexFileName) &&
						md.TotalBytes == md.DataBytes+md.IndexBytes}})
			// every lookup key is handed over in ONE buffer that the caller refills for the next call (a reader may keep nothing of it)
			var probeBuf []byte
			inBuf := func(k []byte) []byte {
				if k == nil {
					return nil
				}
				for i := range probeBuf {
					probeBuf[i] = 0xEE
				}
				probeBuf = append(probeBuf[:0], k...)
				return probeBuf[:len(k):len(k)]
			}
			for _, p := range c.Probes {
				ok, err := rd.Contains(inBuf(keyOf(p)))
				if err != nil {
					tr.emit(M{"t": "contains", "k": p, "r": "err:" + err.Error()})
				} else {
					tr.emit(M{"t": "contains", "k": p, "r": fmt.Sprint(ok)})
				}
				v, err := rd.Get(inBuf(keyOf(p)))
				switch {
				case errors.Is(err, sstables.NotFound):
					tr.emit(M{"t": "get", "k": p, "r": "NotFound"})
				case err != nil:
					tr.emit(M{"t": "get", "k": p, "r": "err:" + err.Error()})
				default:
					tr.emit(M{"t": "get", "k": p, "r": vt(v)})
					pokeReturned(v)
				}
				it, err2 := rd.ScanStartingAt(inBuf(keys[p]))
				emitScan(M{"t": "scanfrom", "k": p}, it, err2)
			}
			{
				it, err2 := rd.Scan()
				emitScan(M{"t": "scan"}, it, err2)
			}
			for _, r := range c.Ranges {
				it, err2 := rd.ScanRange(keys[r[0]], keys[r[1]])
				emitScan(M{"t": "scanrange", "lo": r[0], "hi": r[1]}, it, err2)
			}
			if ci%7 == 3 && ri == 0 {
				// now and then the first reader of a table is never closed (abandoned by its owner): the table that is written to the same
				// directory two cases later must not inherit anything from it
				continue
			}
			rd.Close()
			rd.Close() // closed twice (defer + explicit): whatever the first Close handed back must not be handed back again
		}
		os.RemoveAll(dir)
	}
	return nil
}

// ---- engine "sstdamage" (C09): damage data.rio of a generated table in every enumerated way and record what readers return

type dmgCase struct {
	Writes []sstWrite `json:"writes"`
	DComp  int        `json:"dcomp"`
	IComp  int        `json:"icomp"` // index compression (default of the writer when 0 is not wanted: pass -1)
	Step   int        `json:"step"`  // byte offsets visited: every Step-th (1 = all)
	Kinds  []string   `json:"kinds"` // byte | trunc | swap
	Tail   int        `json:"tail"`  // > 0 (big tables): damage only the last Tail bytes; Get only the first 2 and last 12 keys, range scan over the last 12
}

type dmgIn struct {
	Keys  []string          `json:"keys"`
	Vals  map[string]string `json:"vals"`
	Dir   string            `json:"dir"`
	Cases []dmgCase         `json:"cases"`
}

func init() { register("sstdamage", runSSTDamage) }

func runSSTDamage(args []string) error {
	var in dmgIn
	if err := readJSON(args[0], &in); err != nil {
		return err
	}
	tr, err := newTrace(args[1])
	if err != nil {
		return err
	}
	defer tr.close()
	keys := make([][]byte, len(in.Keys))
	rank := map[string]int{}
	for i, h := range in.Keys {
		keys[i] = unhex(h)
		rank[string(keys[i])] = i
	}
	vals := map[string][]byte{}
	tokOf := map[string]string{}
	for t, h := range in.Vals {
		vals[t] = unhex(h)
		tokOf[string(vals[t])] = t
	}
	vb := func(t string) []byte {
		if t == "NIL" {
			return nil
		}
		if t == "EMPTY" {
			return []byte{}
		}
		return vals[t]
	}
	vt := func(b []byte) string {
		if b == nil {
			return "NIL"
		}
		if len(b) == 0 {
			return "EMPTY"
		}
		if t, ok := tokOf[string(b)]; ok {
			return t
		}
		return fmt.Sprintf("UNKNOWN(len=%d)", len(b))
	}
	cmp := skiplist.BytesComparator{}
	for ci, c := range in.Cases {
		dir := filepath.Join(in.Dir, fmt.Sprintf("d%d", ci))
		os.MkdirAll(dir, 0o700)
		dwopts := []sstables.WriterOption{sstables.WriteBasePath(dir), sstables.WithKeyComparator(cmp), sstables.DataCompressionType(c.DComp),
			sstables.WriteBufferSizeBytes(4096)}
		if c.IComp >= 0 {
			dwopts = append(dwopts, sstables.IndexCompressionType(c.IComp))
		}
		w, err := sstables.NewSSTableStreamWriter(dwopts...)
		if err != nil {
			return err
		}
		if err := w.Open(); err != nil {
			return err
		}
		orig := []any{}
		var wkeys []int
		for _, wr := range c.Writes {
			if err := w.WriteNext(keys[wr.K], vb(wr.V)); err != nil {
				return err
			}
			orig = append(orig, []any{wr.K, wr.V})
			wkeys = append(wkeys, wr.K)
		}
		if err := w.Close(); err != nil {
			return err
		}
		dataPath := filepath.Join(dir, sstables.DataFileName)
		data, err := os.ReadFile(dataPath)
		if err != nil {
			return err
		}
		tr.emit(M{"t": "reset", "case": ci})
		tr.emit(M{"t": "dmgtable", "orig": orig, "size": len(data)})
		// record extents by an independent walk over the v4 framing
		var starts []int
		for off := 8; off < len(data); {
			hl := headerLen(data[off:])
			if hl == 0 {
				break
			}
			_, k := binary.Uvarint(data[off:])
			isNil := data[off+k] == 1
			ulen, k2 := binary.Uvarint(data[off+k+1:])
			clen, _ := binary.Uvarint(data[off+k+1+k2:])
			stored := int(ulen)
			if c.DComp != 0 {
				stored = int(clen)
			}
			if isNil {
				stored = 0
			}
			starts = append(starts, off)
			off += hl + stored
		}
		starts = append(starts, len(data))

		probe := func(kind string, off, val int, content []byte) {
			os.WriteFile(dataPath, content, 0o600)
			for _, ml := range [][2]string{{"load", "slice"}, {"read", "slice"}, {"read", "map"}, {"read", "skiplist"}, {"read", "disk"}, {"load", "disk"}, {"readrev", "slice"}} {
				mode, loader := ml[0], ml[1]
				ropts := []sstables.ReadOption{sstables.ReadBasePath(dir), sstables.ReadWithKeyComparator(cmp)}
				if mode == "read" {
					ropts = append(ropts, sstables.SkipHashCheckOnLoad(), sstables.EnableHashCheckOnReads())
				}
				if mode == "readrev" { // the same two options in the other order
					ropts = append(ropts, sstables.EnableHashCheckOnReads(), sstables.SkipHashCheckOnLoad())
				}
				switch loader {
				case "map":
					ropts = append(ropts, sstables.ReadIndexLoader(&sstables.MapKeyIndexLoader[string]{ReadBufferSize: 4096, Mapper: strMapper{}}))
				case "skiplist":
					ropts = append(ropts, sstables.ReadIndexLoader(&sstables.SkipListIndexLoader{KeyComparator: cmp, ReadBufferSize: 4096}))
				case "disk":
					ropts = append(ropts, sstables.ReadIndexLoader(&sstables.DiskIndexLoader{}))
				}
				ev := M{"t": "dmg", "kind": kind, "off": off, "val": val, "mode": mode, "loader": loader, "dcomp": c.DComp, "open": "ok", "gets": []string{}, "gk": []int{}, "scan": [][]any{}, "scanend": "ok",
					"range": [][]any{}, "rangeend": "ok"}
				func() {
					defer func() {
						if r := recover(); r != nil {
							ev["open"] = fmt.Sprintf("panic: %v", r)
						}
					}()
					rd, err := sstables.NewSSTableReader(ropts...)
					if err != nil {
						ev["open"] = "err"
						ev["operr"] = err.Error()
						return
					}
					defer rd.Close()
					gets := []string{}
					gk := []int{}
					for wi, k := range wkeys {
						if c.Tail > 0 && wi >= 2 && wi < len(wkeys)-12 {
							continue
						}
						gk = append(gk, wi+1)
						v, err := rd.Get(keys[k])
						if err != nil {
							gets = append(gets, "err")
						} else {
							gets = append(gets, vt(v))
						}
					}
					ev["gets"] = gets
					ev["gk"] = gk
					drainTo := func(it sstables.SSTableIteratorI, err error, outKey, endKey string) {
						out := [][]any{}
						if err != nil {
							ev[endKey] = "err"
							ev[outKey] = out
							return
						}
						for n := 0; n < 10000; n++ {
							k, v, err := it.Next()
							if errors.Is(err, sstables.Done) {
								break
							}
							if err != nil {
								ev[endKey] = "err"
								break
							}
							r, ok := rank[string(k)]
							if !ok {
								r = -2
							}
							out = append(out, []any{r, vt(v)})
						}
						ev[outKey] = out
					}
					if c.Tail > 0 {
						lo := len(wkeys) - 12
						if lo < 0 {
							lo = 0
						}
						it, err := rd.ScanRange(keys[wkeys[lo]], keys[wkeys[len(wkeys)-1]])
						drainTo(it, err, "range", "rangeend")
						return
					}
					it, err := rd.Scan()
					drainTo(it, err, "scan", "scanend")
					if len(wkeys) > 0 {
						it, err = rd.ScanRange(keys[wkeys[0]], keys[wkeys[len(wkeys)-1]])
						drainTo(it, err, "range", "rangeend")
					}
				}()
				tr.emit(ev)
			}
		}
		step := c.Step
		if step < 1 {
			step = 1
		}
		for _, kind := range c.Kinds {
			switch kind {
			case "byte":
				first := 0
				if c.Tail > 0 && len(data) > c.Tail {
					first = len(data) - c.Tail
				}
				for off := first; off < len(data); off += step {
					vals := []byte{data[off] ^ 1, data[off] ^ 2, data[off] ^ 4, data[off] ^ 8, data[off] ^ 16, data[off] ^ 32, data[off] ^ 64, data[off] ^ 128, 0x00, 0xff, 0x91, 0x8d, 0x4c}
					if c.Tail > 0 {
						vals = []byte{data[off] ^ 1, data[off] ^ 128, 0x00, 0xff, 0x91}
					}
					for _, v := range vals {
						if v == data[off] {
							continue
						}
						cp := append([]byte{}, data...)
						cp[off] = v
						probe("byte", off, int(v), cp)
					}
				}
			case "trunc":
				first := 0
				if c.Tail > 0 && len(data) > c.Tail {
					first = len(data) - c.Tail
				}
				for n := first; n < len(data); n += step {
					probe("trunc", n, 0, data[:n])
				}
			case "swap":
				for i := 0; i+1 < len(starts)-1; i++ {
					for j := i + 1; j < len(starts)-1; j++ {
						if j > i+3 {
							break
						}
						a, b := data[starts[i]:starts[i+1]], data[starts[j]:starts[j+1]]
						cp := append([]byte{}, data[:starts[i]]...)
						cp = append(cp, b...)
						cp = append(cp, data[starts[i+1]:starts[j]]...)
						cp = append(cp, a...)
						cp = append(cp, data[starts[j+1]:]...)
						probe("swap", i, j, cp)
					}
				}
			}
		}
		os.RemoveAll(dir)
	}
	return nil
}
