package main

import (
	"fmt"
	"strings"
	"sync"
	"time"

	"github.com/thomasjungblut/go-sstables/simpledb"
)

// Schedule replay (C05, spec -> impl): a behaviour of the concurrent model (GenSimpleDBConc.tla) is a complete schedule at lock /
// channel grain - which thread (client c1 / c2, flusher, compactor) takes which step in which order.  The real threads are parked
// at the scheduling gates of the library (get.between, flush.take, flush.written, compact.select, compact.merged) and released one
// step at a time in exactly that order.  A step the model enabled must complete (otherwise: schedstuck), and every Get must reply
// the value the model computed for this very interleaving (schedget).  All hook events go to the white-box trace as usual.

type schedStep struct {
	A   string `json:"a"`
	C   string `json:"c"`
	K   int    `json:"k"`
	V   string `json:"v"` // value token of a put (already made unique by the generator)
	R   string `json:"r"` // getmem: the model's reply (model value token or "none")
	Pad int    `json:"pad"`
}

type arrival struct {
	point string
	ch    chan struct{}
}

type schedCtl struct {
	mu       sync.Mutex
	held     map[string]bool
	arrivals []*arrival
}

func (c *schedCtl) fn(point string) {
	c.mu.Lock()
	if !c.held[point] {
		c.mu.Unlock()
		return
	}
	a := &arrival{point: point, ch: make(chan struct{})}
	c.arrivals = append(c.arrivals, a)
	c.mu.Unlock()
	<-a.ch
}

// take waits until a thread is parked at the point and hands out its arrival
func (c *schedCtl) take(point string, d time.Duration) *arrival {
	dl := time.Now().Add(d)
	for {
		c.mu.Lock()
		for i, a := range c.arrivals {
			if a.point == point {
				c.arrivals = append(c.arrivals[:i], c.arrivals[i+1:]...)
				c.mu.Unlock()
				return a
			}
		}
		c.mu.Unlock()
		if time.Now().After(dl) {
			return nil
		}
		time.Sleep(100 * time.Microsecond)
	}
}

func (c *schedCtl) releaseAll() {
	c.mu.Lock()
	c.held = map[string]bool{}
	as := c.arrivals
	c.arrivals = nil
	c.mu.Unlock()
	for _, a := range as {
		close(a.ch)
	}
}

// the model's value token of a real reply: "va_17" -> "a"; "none" stays
func modelToken(r string) string {
	if r == "none" || !strings.HasPrefix(r, "v") {
		return r
	}
	r = r[1:]
	if i := strings.IndexByte(r, '_'); i >= 0 {
		r = r[:i]
	}
	return r
}

type schedClient struct {
	g       int
	getArr  *arrival
	getDone chan string
	rotDone chan struct{}
}

func waitDone(ch <-chan struct{}, d time.Duration) bool {
	select {
	case <-ch:
		return true
	case <-time.After(d):
		return false
	}
}

func (x *dbExec) sched(db *simpledb.DB, s dbStep) {
	rec := x.rec
	ctl := &schedCtl{held: map[string]bool{"get.between": true, "flush.take": true, "flush.written": true, "compact.select": true, "compact.merged": true}}
	old := simpledb.VerifGateFn
	simpledb.VerifGateFn = ctl.fn
	const T = 20 * time.Second
	clients := map[string]*schedClient{}
	client := func(name string) *schedClient {
		c, ok := clients[name]
		if !ok {
			c = &schedClient{g: len(clients) + 1}
			clients[name] = c
		}
		return c
	}
	var flushArr, compArr *arrival
	var compDone chan struct{}
	var all []chan struct{} // every goroutine started here, joined at the end
	spawn := func(f func()) chan struct{} {
		done := make(chan struct{})
		all = append(all, done)
		go func() { defer close(done); f() }()
		return done
	}
	completed := 0
	stuck := func(i int, st schedStep, why string) {
		rec.emit(M{"t": "schedstuck", "i": i, "a": st.A, "c": st.C, "why": why})
	}
	ok := true
	for i, st := range s.Sched {
		if !ok {
			break
		}
		switch st.A {
		case "open", "getstart", "getret":
			// open: the options are those of the open step; getstart / getret: no gate of their own (see GenSimpleDBConc.tla)
		case "put", "del", "putrotate":
			c := client(st.C)
			op := dbStep{Op: "put", K: st.K, V: st.V, Pad: st.Pad}
			if st.A == "del" {
				op = dbStep{Op: "del", K: st.K}
			}
			d := spawn(func() { x.step(db, op, c.g) })
			if !waitDone(d, T) {
				stuck(i, st, "mutation does not return")
				ok = false
				break
			}
			if st.A == "putrotate" {
				c.rotDone = spawn(func() { db.VerifRotate() })
			}
		case "handoff":
			c := client(st.C)
			if c.rotDone == nil || !waitDone(c.rotDone, T) {
				stuck(i, st, "hand-off does not complete although the model's flusher is idle")
				ok = false
				break
			}
			c.rotDone = nil
			if flushArr = ctl.take("flush.take", T); flushArr == nil {
				stuck(i, st, "flusher did not take the store")
				ok = false
			}
		case "flushwrite":
			if flushArr == nil || flushArr.point != "flush.take" {
				stuck(i, st, "flusher is not at flush.take")
				ok = false
				break
			}
			close(flushArr.ch)
			if flushArr = ctl.take("flush.written", T); flushArr == nil {
				stuck(i, st, "table was not written")
				ok = false
			}
		case "flushinstall":
			if flushArr == nil || flushArr.point != "flush.written" {
				stuck(i, st, "flusher is not at flush.written")
				ok = false
				break
			}
			n := rec.countOf("install")
			close(flushArr.ch)
			flushArr = nil
			for dl := time.Now().Add(T); rec.countOf("install") == n; {
				if time.Now().After(dl) {
					stuck(i, st, "install does not happen")
					ok = false
					break
				}
				time.Sleep(100 * time.Microsecond)
			}
		case "gettables":
			c := client(st.C)
			k := st.K
			ch := make(chan string, 1)
			c.getDone = ch
			spawn(func() { ch <- x.get(db, k, c.g, "bytes") })
			if c.getArr = ctl.take("get.between", T); c.getArr == nil {
				stuck(i, st, "Get did not reach its second read")
				ok = false
			}
		case "getmem":
			c := client(st.C)
			if c.getArr == nil {
				stuck(i, st, "Get is not between its reads")
				ok = false
				break
			}
			close(c.getArr.ch)
			c.getArr = nil
			select {
			case r := <-c.getDone:
				rec.emit(M{"t": "schedget", "i": i, "c": st.C, "k": st.K, "exp": st.R, "got": modelToken(r), "raw": r})
			case <-time.After(T):
				stuck(i, st, "Get does not return")
				ok = false
			}
		case "cselect":
			compDone = spawn(func() {
				if _, err := db.VerifCompactOnce(); err != nil {
					rec.emit(M{"t": "bgfail", "msg": "compaction failed: " + err.Error()})
				}
			})
			if compArr = ctl.take("compact.select", T); compArr == nil {
				stuck(i, st, "compactor did not select")
				ok = false
			}
		case "cmerge":
			if compArr == nil || compArr.point != "compact.select" {
				stuck(i, st, "compactor is not at compact.select")
				ok = false
				break
			}
			close(compArr.ch)
			if compArr = ctl.take("compact.merged", T); compArr == nil {
				stuck(i, st, "compaction did not merge (selection differs from the model)")
				ok = false
			}
		case "creflect":
			if compArr == nil || compArr.point != "compact.merged" {
				stuck(i, st, "compactor is not at compact.merged")
				ok = false
				break
			}
			close(compArr.ch)
			compArr = nil
			if !waitDone(compDone, T) {
				stuck(i, st, "reflect does not complete although the model's lock is free")
				ok = false
			}
		default:
			stuck(i, st, "unknown schedule step")
			ok = false
		}
		if ok {
			completed++
		}
	}
	// let everything run to completion
	if flushArr != nil {
		close(flushArr.ch)
	}
	if compArr != nil {
		close(compArr.ch)
	}
	for _, c := range clients {
		if c.getArr != nil {
			close(c.getArr.ch)
		}
	}
	ctl.releaseAll()
	for _, d := range all {
		if !waitDone(d, 2*T) {
			rec.emit(M{"t": "schedstuck", "i": -1, "a": "join", "c": "-", "why": "a thread of the schedule never finished"})
			break
		}
	}
	simpledb.VerifGateFn = old
	rec.emit(M{"t": "scheddone", "steps": len(s.Sched), "completed": completed, "summary": fmt.Sprintf("%d/%d", completed, len(s.Sched))})
}
