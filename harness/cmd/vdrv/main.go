// vdrv: drivers and observers for the verification harness. Go only drives the real code and records
// what it did; every verdict is taken by TLC on the recorded NDJSON trace (DESIGN §1).
package main

import (
	"bufio"
	"encoding/hex"
	"encoding/json"
	"fmt"
	"os"
	"sort"
)

type engine func(args []string) error

var engines = map[string]engine{}

func register(name string, e engine) { engines[name] = e }

func main() {
	if len(os.Args) < 2 {
		names := []string{}
		for n := range engines {
			names = append(names, n)
		}
		sort.Strings(names)
		fmt.Fprintf(os.Stderr, "usage: vdrv <engine> args...; engines: %v\n", names)
		os.Exit(4) // not 2: that is the exit code of a Go panic / fatal error of the code under test
	}
	e, ok := engines[os.Args[1]]
	if !ok {
		fmt.Fprintf(os.Stderr, "unknown engine %q\n", os.Args[1])
		os.Exit(4)
	}
	if err := e(os.Args[2:]); err != nil {
		fmt.Fprintf(os.Stderr, "vdrv %s: %v\n", os.Args[1], err)
		os.Exit(3)
	}
}

// ---- small shared helpers ----

type M = map[string]any

type traceWriter struct {
	f *os.File
	w *bufio.Writer
	n int
}

func newTrace(path string) (*traceWriter, error) {
	f, err := os.Create(path)
	if err != nil {
		return nil, err
	}
	return &traceWriter{f: f, w: bufio.NewWriterSize(f, 1<<20)}, nil
}

func (t *traceWriter) emit(m M) {
	b, err := json.Marshal(m)
	if err != nil {
		panic(err)
	}
	t.w.Write(b)
	t.w.WriteByte('\n')
	t.n++
}

func (t *traceWriter) close() error {
	if err := t.w.Flush(); err != nil {
		return err
	}
	return t.f.Close()
}

func readJSON(path string, v any) error {
	b, err := os.ReadFile(path)
	if err != nil {
		return err
	}
	return json.Unmarshal(b, v)
}

func unhex(s string) []byte {
	b, err := hex.DecodeString(s)
	if err != nil {
		panic(err)
	}
	if b == nil {
		b = []byte{}
	}
	return b
}

// cap an unsigned 64-bit quantity into TLC's 32-bit integer range (a wrapped value stays huge).
func capInt(x uint64) int {
	if x > 1<<30 {
		return 1 << 30
	}
	return int(x)
}

func errName(err error) string {
	if err == nil {
		return "ok"
	}
	return err.Error()
}

func yield() { runtimeGosched() }

// A caller may do with a returned slice what Go allows - including append. If the library hands out a slice whose spare capacity
// reaches into memory it still uses (a neighbouring key or value), the append damages it: every driver pokes its results this way.
func pokeReturned(b []byte) {
	if b != nil && cap(b) > len(b) {
		_ = append(b, 0xEE, 0xEE, 0xEE)
	}
}
