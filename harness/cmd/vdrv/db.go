package main

import (
	"encoding/hex"
	"errors"
	"fmt"
	"io"
	"log"
	"os"
	"path/filepath"
	"regexp"
	"runtime"
	"sort"
	"strconv"
	"strings"
	"sync"
	"sync/atomic"
	"time"

	"github.com/thomasjungblut/go-sstables/recordio"
	rProto "github.com/thomasjungblut/go-sstables/recordio/proto"
	"github.com/thomasjungblut/go-sstables/simpledb"
	"github.com/thomasjungblut/go-sstables/sstables"
)

// ---- engine "db": executes abstract SimpleDB programs (sequential placements of rotation / flush / compaction / restart and
// concurrent client sections) against the real code with hooks on, and records the white-box trace for SimpleDBTrace.tla.

type dbStep struct {
	Op         string      `json:"op"`
	K          int         `json:"k"`
	V          string      `json:"v"`
	Pad        int         `json:"pad"`
	Mem        uint64      `json:"mem"`
	Thr        int         `json:"thr"`
	MaxSize    uint64      `json:"maxSize"`
	Ratio      int         `json:"ratio"` // per-mille, exactly representable as float32 after /1000
	RBuf       uint64      `json:"rbuf"`
	WBuf       uint64      `json:"wbuf"`
	Bg         bool        `json:"bg"`
	IntervalUs int         `json:"interval_us"`
	Us         int         `json:"us"`
	Clients    [][]dbStep  `json:"clients"`
	Flavor     string      `json:"flavor"`  // "bytes" (default) or "string"
	UsePre     bool        `json:"usepre"`  // open: use the handle a "prenew" step created while the previous session was still open
	Async      bool        `json:"async"`   // EnableAsyncWAL
	ExactOf    int         `json:"exactof"` // open: if > 0, CompactionMaxSizeBytes := TotalBytes of the (exactof)-th table on disk + Delta
	Delta      int         `json:"delta"`
	Match      string      `json:"match"`    // failwrites: substring of the writer's base path
	Which      string      `json:"which"`    // failwrites: data | index
	Pos        int         `json:"pos"`      // failwrites: position of the failing append
	KC         string      `json:"kc"`       // argument class of the key for putx/delx/getx: nil | empty | ok
	VC         string      `json:"vc"`       // argument class of the value for putx
	Sched      []schedStep `json:"sched"`    // op "sched": a complete schedule of the concurrent model (GenSimpleDBConc.tla)
	MF         bool        `json:"mf"`       // put / del: the environment may make this call fail (injected I/O error); close: an error is tolerated
	DirectIO   bool        `json:"directio"` // open: EnableDirectIOWAL (with the synchronous WAL every mutation is refused by design)
}

type dbCase struct {
	Steps []dbStep `json:"steps"`
}

type dbIn struct {
	Keys  []string `json:"keys"`
	Dir   string   `json:"dir"`
	Cases []dbCase `json:"cases"`
	Gates bool     `json:"gates"` // seeded delays at the scheduling gates
	// how the database directory is spelled when it is handed to NewSimpleDB: "" (clean) | "slash" (trailing /) | "dslash" (// inside) |
	// "dot" (/./ inside) | "glob" (the directory NAME contains glob metacharacters) | "rel" (relative to the working directory)
	DirStyle string `json:"dirstyle"`
	Seed     int64  `json:"seed"`
}

var genRe = regexp.MustCompile(`sstable_(\d+)$`)

func genOf(path string) int {
	m := genRe.FindStringSubmatch(path)
	if m == nil {
		return -1
	}
	n, _ := strconv.Atoi(m[1])
	return n
}

type dbRecorder struct {
	mu           sync.Mutex
	tr           *traceWriter
	keyRank      map[string]int
	barrier      int32
	opening      int32 // events emitted while Open() runs are recovery steps, summarized by the "open" line
	compacting   int32 // a compaction cycle is between selection and reflect (its private readers are open)
	compactEpoch int32
	muted        int32          // events of a throw-away handle are dropped
	counts       map[string]int // hook events seen so far, by name
}

func (r *dbRecorder) emit(m M) {
	r.mu.Lock()
	r.tr.emit(m)
	r.tr.w.Flush()
	r.mu.Unlock()
}

func valToken(b []byte) string {
	if b == nil {
		return "NIL"
	}
	s := string(b)
	if i := strings.IndexByte(s, '|'); i >= 0 {
		return s[:i]
	}
	if len(s) == 0 {
		return "EMPTY"
	}
	return "raw:" + hex.EncodeToString(b)
}

// value = token | pad pseudo-random (incompressible, deterministic) bytes, so that table sizes follow the requested padding
func valBytes(tok string, pad int) []byte {
	b := make([]byte, 0, len(tok)+1+pad)
	b = append(b, tok...)
	b = append(b, '|')
	x := uint32(2166136261)
	for i := 0; i < len(tok); i++ {
		x = (x ^ uint32(tok[i])) * 16777619
	}
	for i := 0; i < pad; i++ {
		x = x*1664525 + 1013904223
		b = append(b, byte(x>>24))
	}
	return b
}

func tableMeta(t simpledb.VerifTable) M {
	return M{"gen": genOf(t.Path), "nrec": int(t.NumRecords), "ntomb": int(t.NullValues), "bytes": capInt(t.TotalBytes)}
}

func tableMetas(ts []simpledb.VerifTable) []M {
	out := make([]M, 0, len(ts))
	for _, t := range ts {
		out = append(out, tableMeta(t))
	}
	return out
}

func gensOfNames(names []string) []int {
	out := make([]int, 0, len(names))
	for _, n := range names {
		out = append(out, genOf(n))
	}
	return out
}

// sink translates hook events into trace lines (projection only - no judgement)
func (r *dbRecorder) sink(name string, f map[string]any) {
	r.mu.Lock()
	if r.counts == nil {
		r.counts = map[string]int{}
	}
	r.counts[name]++
	r.mu.Unlock()
	if atomic.LoadInt32(&r.muted) != 0 {
		return
	}
	if atomic.LoadInt32(&r.opening) != 0 {
		r.emit(M{"t": "note", "name": "recovery:" + name})
		return
	}
	switch name {
	case "put":
		if k := r.rank(f["k"].([]byte)); k >= 0 {
			r.emit(M{"t": "put", "k": k, "v": valToken(f["v"].([]byte))})
		} else {
			r.emit(M{"t": "mut-unknown-key", "op": "put"})
		}
	case "del":
		if k := r.rank(f["k"].([]byte)); k >= 0 {
			r.emit(M{"t": "del", "k": k})
		} else {
			r.emit(M{"t": "mut-unknown-key", "op": "del"})
		}
	case "rotwal":
		r.emit(M{"t": "rotwal", "wal": f["wal"]})
	case "rotate":
		r.emit(M{"t": "rotate", "n": f["n"]})
	case "handoff":
		r.emit(M{"t": "handoff"})
	case "flush.take":
		r.emit(M{"t": "flush.take", "n": f["n"], "gen": genOf(f["path"].(string))})
	case "flush.skip":
		b := false
		for {
			c := atomic.LoadInt32(&r.barrier)
			if c <= 0 {
				break
			}
			if atomic.CompareAndSwapInt32(&r.barrier, c, c-1) {
				b = true
				break
			}
		}
		r.emit(M{"t": "flush.skip", "barrier": b})
	case "flush.written":
		r.emit(M{"t": "flush.written", "gen": genOf(f["path"].(string))})
	case "flush.walrm":
		r.emit(M{"t": "flush.walrm", "wal": f["path"]})
	case "install":
		ts := f["tables"].([]simpledb.VerifTable)
		gens := make([]int, 0, len(ts))
		for _, t := range ts {
			gens = append(gens, genOf(t.Path))
		}
		r.emit(M{"t": "install", "table": tableMeta(f["table"].(simpledb.VerifTable)), "gens": gens})
	case "compact.candidates":
		r.emit(M{"t": "compact.candidates", "tables": tableMetas(f["tables"].([]simpledb.VerifTable)),
			"selected": gensOfNames(f["selected"].([]string)), "maxSize": capInt(f["maxSize"].(uint64)),
			"ratio": int(f["ratio"].(float32)*1000 + 0.5)})
	case "compact.select":
		if f["compacting"].(bool) {
			atomic.StoreInt32(&r.compacting, 1)
			atomic.AddInt32(&r.compactEpoch, 1)
		}
		r.emit(M{"t": "compact.select", "selected": gensOfNames(f["selected"].([]string)), "threshold": f["threshold"], "compacting": f["compacting"]})
	case "compact.merged":
		r.emit(M{"t": "compact.merged", "inputs": gensOfNames(f["inputs"].([]string)), "replacement": genOf(f["replacement"].(string))})
	case "reflect.begin":
		r.emit(M{"t": "reflect.begin", "inputs": gensOfNames(f["inputs"].([]string))})
	case "reflect.done":
		atomic.StoreInt32(&r.compacting, 0)
		r.emit(M{"t": "reflect.done", "tables": tableMetas(f["tables"].([]simpledb.VerifTable))})
	case "open.loaded":
		// covered by open.done
	case "open.done", "close.begin", "close.flusher", "close.done":
		// open.done is emitted by the driver (it knows the options); the close phases directly
		if name != "open.done" {
			r.emit(M{"t": name})
		}
	default:
		r.emit(M{"t": "note", "name": name})
	}
}

func (r *dbRecorder) rank(k []byte) int {
	if n, ok := r.keyRank[string(k)]; ok {
		return n
	}
	return -2
}

func init() { register("db", runDB) }

func runDB(args []string) error {
	if len(args) != 2 {
		return fmt.Errorf("usage: db <in.json> <out.ndjson>")
	}
	var in dbIn
	if err := readJSON(args[0], &in); err != nil {
		return err
	}
	tr, err := newTrace(args[1])
	if err != nil {
		return err
	}
	defer tr.close()
	log.SetOutput(io.Discard)

	keys := make([][]byte, len(in.Keys))
	rec := &dbRecorder{tr: tr, keyRank: map[string]int{}}
	for i, h := range in.Keys {
		keys[i] = unhex(h)
		rec.keyRank[string(keys[i])] = i
	}
	simpledb.VerifSink = rec.sink
	if in.Gates {
		var ctr uint64
		simpledb.VerifGateFn = func(point string) {
			n := atomic.AddUint64(&ctr, 1)
			// deterministic pseudo-random yield / short sleep to widen the window between the two reads of a Get
			x := (n*2654435761 + uint64(in.Seed)*40503) % 16
			if x == 0 {
				time.Sleep(time.Duration(50+x*20) * time.Microsecond)
			} else if x < 6 {
				for i := uint64(0); i < x; i++ {
					yield()
				}
			}
		}
	}

	for ci, c := range in.Cases {
		name := fmt.Sprintf("case%d", ci)
		if in.DirStyle == "glob" {
			name = fmt.Sprintf("case[%d]*?", ci)
		}
		dir := filepath.Join(in.Dir, name)
		if err := os.MkdirAll(dir, 0o700); err != nil {
			return err
		}
		rec.emit(M{"t": "reset", "case": ci})
		var db *simpledb.DB
		x := &dbExec{rec: rec, keys: keys, dir: dir, openDir: dir}
		switch in.DirStyle {
		case "slash":
			x.openDir = dir + "/"
		case "dslash":
			x.openDir = in.Dir + "//" + name
		case "dot":
			x.openDir = in.Dir + "/./" + name + "/."
		case "rel":
			// relative to the working directory
			if err := os.Chdir(in.Dir); err != nil {
				return err
			}
			x.openDir = name
		}
		for _, s := range c.Steps {
			db, err = x.step(db, s, 0)
			if err != nil {
				return err
			}
		}
		if db != nil {
			// a case that leaves the database open: close it quietly (events still validated)
			_ = db.Close()
		}
		if os.Getenv("VERIF_KEEP_DIR") == "" {
			os.RemoveAll(dir)
		}
	}
	return nil
}

type dbExec struct {
	pre     *simpledb.DB // handle created by a "prenew" step for the next "open"
	kbMu    sync.Mutex
	kbufs   map[int][]byte
	rec     *dbRecorder
	keys    [][]byte
	dir     string // canonical path (observation, copies)
	openDir string // the same directory as it is spelled for NewSimpleDB
	mayFail bool   // the current session's options refuse every mutation (direct-I/O WAL without the asynchronous mode)
}

func (x *dbExec) step(db *simpledb.DB, s dbStep, g int) (*simpledb.DB, error) {
	rec := x.rec
	switch s.Op {
	case "open", "prenew":
		if s.ExactOf > 0 {
			// exact-equality probe of the selection rule: read the table sizes with a throw-away handle first
			if probe, err := simpledb.NewSimpleDB(x.openDir, simpledb.DisableCompactions()); err == nil {
				atomic.StoreInt32(&rec.opening, 1)
				if probe.Open() == nil {
					ts := probe.VerifTables()
					if s.ExactOf <= len(ts) {
						s.MaxSize = uint64(int(ts[s.ExactOf-1].TotalBytes) + s.Delta)
					}
					atomic.StoreInt32(&rec.muted, 1)
					probe.Close()
					atomic.StoreInt32(&rec.muted, 0)
				}
				atomic.StoreInt32(&rec.opening, 0)
			}
		}
		opts := []simpledb.ExtraOption{
			simpledb.MemstoreSizeBytes(s.Mem), simpledb.CompactionFileThreshold(s.Thr), simpledb.CompactionMaxSizeBytes(s.MaxSize),
			simpledb.CompactionRatio(float32(s.Ratio) / 1000),
		}
		if s.RBuf > 0 {
			opts = append(opts, simpledb.ReadBufferSizeBytes(s.RBuf))
		}
		if s.WBuf > 0 {
			opts = append(opts, simpledb.WriteBufferSizeBytes(s.WBuf))
		}
		if s.Async {
			opts = append(opts, simpledb.EnableAsyncWAL())
		}
		if s.DirectIO {
			opts = append(opts, simpledb.EnableDirectIOWAL())
		}
		x.mayFail = s.DirectIO && !s.Async
		if s.Bg {
			opts = append(opts, simpledb.CompactionRunInterval(time.Duration(s.IntervalUs)*time.Microsecond))
		} else {
			opts = append(opts, simpledb.DisableCompactions())
		}
		if s.Op == "prenew" {
			// the handle of the NEXT session is created now, while the current one is still open (its Open comes after the Close)
			pre, err := simpledb.NewSimpleDB(x.openDir, opts...)
			if err != nil {
				return db, err
			}
			x.pre = pre
			return db, nil
		}
		var ndb *simpledb.DB
		var err error
		if s.UsePre && x.pre != nil {
			ndb, x.pre = x.pre, nil
		} else {
			ndb, err = simpledb.NewSimpleDB(x.openDir, opts...)
		}
		if err != nil {
			return nil, err
		}
		atomic.StoreInt32(&rec.opening, 1)
		err = ndb.Open()
		atomic.StoreInt32(&rec.opening, 0)
		if err != nil {
			rec.emit(M{"t": "bgfail", "msg": "open failed: " + err.Error()})
			return nil, nil
		}
		gen := 0
		ts := ndb.VerifTables()
		for _, t := range ts {
			if g := genOf(t.Path); g > gen {
				gen = g
			}
		}
		rec.emit(M{"t": "open", "cfg": M{"thr": s.Thr, "maxSize": capInt(s.MaxSize), "ratio": s.Ratio}, "tables": tableMetas(ts), "gen": gen,
			"mem": capInt(s.Mem), "bg": s.Bg})
		return ndb, nil
	case "close":
		if db == nil {
			return nil, nil
		}
		if err := db.Close(); err != nil {
			if s.MF {
				rec.emit(M{"t": "note", "name": "close after an injected I/O error: " + err.Error()})
			} else {
				rec.emit(M{"t": "bgfail", "msg": "close failed: " + err.Error()})
			}
		}
		return nil, nil
	}
	if s.Op == "obs" {
		x.observe(db)
		return db, nil
	}
	if db == nil {
		return nil, nil // database could not be opened; the bgfail event already decides the case
	}
	switch s.Op {
	case "put":
		rec.emit(M{"t": "inv", "g": g, "op": "put", "k": s.K, "v": s.V, "kc": "ok", "vc": "ok", "fl": flavorOf(s), "mf": x.mayFail || s.MF})
		var err error
		if s.Flavor == "string" {
			err = db.Put(string(x.keys[s.K]), string(valBytes(s.V, s.Pad)))
		} else {
			err = db.PutBytes(x.keys[s.K], valBytes(s.V, s.Pad))
		}
		rec.emit(M{"t": "ret", "g": g, "r": okOrErr(err)})
	case "del":
		rec.emit(M{"t": "inv", "g": g, "op": "del", "k": s.K, "v": "", "kc": "ok", "vc": "ok", "fl": flavorOf(s), "mf": x.mayFail || s.MF})
		var err error
		if s.Flavor == "string" {
			err = db.Delete(string(x.keys[s.K]))
		} else {
			err = db.DeleteBytes(x.keys[s.K])
		}
		rec.emit(M{"t": "ret", "g": g, "r": okOrErr(err)})
	case "get":
		x.get(db, s.K, g, s.Flavor)
	case "getall":
		for k := range x.keys {
			if s.K > 0 && k >= s.K {
				break
			}
			x.get(db, k, g, s.Flavor)
		}
	case "putx", "delx", "getx":
		x.argClassCall(db, s, g)
	case "crashcheck":
		x.crashCheck(db, s)
	case "tornreopen":
		x.tornReopen(db, s)
	case "snapshot":
		// copy of the live directory (= the image a kill would leave at this quiescent point), kept for the caller under <dir>-<v>
		atomic.AddInt32(&x.rec.barrier, 2)
		db.VerifFlushBarrier()
		x.drainBarrier()
		if err := copyTree(x.dir, x.dir+"-"+s.V); err != nil {
			rec.emit(M{"t": "note", "name": "snapshot failed: " + err.Error()})
		}
	case "sched":
		x.sched(db, s)
	case "window":
		if x.window(db, s) {
			return nil, nil // the window closed the database
		}
	case "failwrites":
		// from now on, stream writers whose directory matches fail their pos-th data / index append (C11)
		st := s
		sstables.VerifOnWriterOpen = func(w *sstables.SSTableStreamWriter) {
			if !strings.Contains(w.VerifBasePath(), st.Match) {
				return
			}
			hit := new(bool)
			switch st.Which {
			case "data":
				w.VerifWrapWriters(func(d recordio.WriterI) recordio.WriterI { return &countingFailData{WriterI: d, at: st.Pos, hit: hit} }, nil)
			case "dataclose":
				w.VerifWrapWriters(func(d recordio.WriterI) recordio.WriterI {
					return &countingFailData{WriterI: d, at: -1, hit: hit, failClose: true}
				}, nil)
			case "indexclose":
				w.VerifWrapWriters(nil, func(i rProto.WriterI) rProto.WriterI {
					return &countingFailIndex{WriterI: i, at: -1, hit: hit, failClose: true}
				})
			default:
				w.VerifWrapWriters(nil, func(i rProto.WriterI) rProto.WriterI { return &countingFailIndex{WriterI: i, at: st.Pos, hit: hit} })
			}
			rec.emit(M{"t": "note", "name": "failwrites armed for " + filepath.Base(w.VerifBasePath())})
		}
	case "rotate":
		if err := db.VerifRotate(); err != nil {
			rec.emit(M{"t": "bgfail", "msg": "rotate failed: " + err.Error()})
		}
	case "barrier":
		atomic.AddInt32(&rec.barrier, 2)
		db.VerifFlushBarrier()
		x.drainBarrier()
	case "compact":
		_, err := db.VerifCompactOnce()
		if err != nil {
			rec.emit(M{"t": "bgfail", "msg": "compaction cycle failed: " + err.Error()})
		}
	case "damage":
		// flip one byte of a file of a live table (s.Match = directory name, s.Which = file name, s.Pos = offset from the END of the file)
		fp := filepath.Join(x.dir, s.Match, s.Which)
		b, err := os.ReadFile(fp)
		if err == nil && len(b) > s.Pos && s.Pos > 0 {
			st, _ := os.Stat(fp)
			f, err2 := os.OpenFile(fp, os.O_WRONLY, 0)
			if err2 == nil {
				_, err2 = f.WriteAt([]byte{b[len(b)-s.Pos] ^ 0x20}, int64(len(b)-s.Pos))
				f.Close()
			}
			if st != nil {
				os.Chtimes(fp, st.ModTime(), st.ModTime()) // bit rot does not touch the modification time (same inode, same size, same mtime)
			}
			err = err2
		} else if err == nil {
			err = fmt.Errorf("file has %d bytes", len(b))
		}
		rec.emit(M{"t": "note", "name": fmt.Sprintf("damage armed: %s/%s byte -%d: %v", s.Match, s.Which, s.Pos, err)})
	case "touch":
		// the application keeps a file of its own in the database directory (say a lock file)
		if err := os.WriteFile(filepath.Join(x.dir, "LOCK"), []byte("pid 4711\n"), 0o600); err != nil {
			rec.emit(M{"t": "note", "name": "touch failed: " + err.Error()})
		}
	case "sleep":
		time.Sleep(time.Duration(s.Us) * time.Microsecond)
	case "par":
		var wg sync.WaitGroup
		for ci, prog := range s.Clients {
			wg.Add(1)
			go func(ci int, prog []dbStep) {
				defer wg.Done()
				for _, ps := range prog {
					x.step(db, ps, ci+1)
				}
			}(ci, prog)
		}
		wg.Wait()
	default:
		return db, fmt.Errorf("unknown step %q", s.Op)
	}
	return db, nil
}

// drainBarrier: VerifFlushBarrier returns when the flusher has TAKEN the second empty store; its "skip" event (which consumes the second barrier
// credit) follows a moment later. Whoever goes on before that event is recorded (or mutes the recorder) leaves a stale credit behind, and the next
// genuine skip - the empty store of a Close - would be taken for a barrier. So wait until both credits are consumed.
func (x *dbExec) drainBarrier() {
	for i := 0; i < 20000 && atomic.LoadInt32(&x.rec.barrier) > 0; i++ {
		time.Sleep(100 * time.Microsecond)
	}
}

// keyBuf: one reusable key buffer per client goroutine
func (x *dbExec) keyBuf(g int, k []byte) []byte {
	if len(k) == 0 {
		return k // nil and empty keys are argument classes of their own (C17): passed as they are
	}
	x.kbMu.Lock()
	defer x.kbMu.Unlock()
	if x.kbufs == nil {
		x.kbufs = map[int][]byte{}
	}
	b := append(x.kbufs[g][:0], k...)
	x.kbufs[g] = b
	return b[:len(k):len(k)]
}

func (x *dbExec) get(db *simpledb.DB, k int, g int, flavor string) string {
	x.rec.emit(M{"t": "inv", "g": g, "op": "get", "k": k, "v": "", "kc": "ok", "vc": "ok", "fl": "bytes"})
	var v []byte
	var err error
	if flavor == "string" {
		var sv string
		sv, err = db.Get(string(x.keys[k]))
		v = []byte(sv)
	} else {
		// the key travels in a buffer of this goroutine that is refilled for its next call (the database may keep nothing of it)
		kb := x.keyBuf(g, x.keys[k])
		v, err = db.GetBytes(kb)
		for i := range kb {
			kb[i] = 0xEE
		}
		defer pokeReturned(v)
	}
	r := ""
	switch {
	case errors.Is(err, simpledb.ErrNotFound):
		r = "none"
	case err != nil:
		r = "err:" + err.Error()
	default:
		r = valToken(v)
	}
	x.rec.emit(M{"t": "ret", "g": g, "r": r})
	return r
}

func okOrErr(err error) string {
	if err == nil {
		return "ok"
	}
	return "err:" + err.Error()
}

func flavorOf(s dbStep) string {
	if s.Flavor == "string" {
		return "string"
	}
	return "bytes"
}

func classBytes(class string, ok []byte) []byte {
	switch class {
	case "nil":
		return nil
	case "empty":
		return []byte{}
	}
	return ok
}

// calls with argument classes (nil / empty / ok) through either API flavour (C17)
func (x *dbExec) argClassCall(db *simpledb.DB, s dbStep, g int) {
	fl := flavorOf(s)
	kc, vc := s.KC, s.VC
	if vc == "" {
		vc = "ok"
	}
	kb := classBytes(kc, x.keys[s.K])
	evK := s.K
	if kc != "ok" {
		// a nil or empty key is the empty key of the universe (if the concretization has one)
		if ek, ok := x.rec.keyRank[""]; ok {
			evK = ek
		}
	}
	x.rec.emit(M{"t": "inv", "g": g, "op": s.Op, "k": evK, "v": s.V, "kc": kc, "vc": vc, "fl": fl})
	r := ""
	switch s.Op {
	case "putx":
		vb := classBytes(vc, valBytes(s.V, s.Pad))
		if fl == "string" {
			r = okOrErr(db.Put(string(kb), string(vb)))
		} else {
			r = okOrErr(db.PutBytes(kb, vb))
		}
	case "delx":
		if fl == "string" {
			r = okOrErr(db.Delete(string(kb)))
		} else {
			r = okOrErr(db.DeleteBytes(kb))
		}
	case "getx":
		var v []byte
		var err error
		if fl == "string" {
			var sv string
			sv, err = db.Get(string(kb))
			v = []byte(sv)
		} else {
			v, err = db.GetBytes(kb)
		}
		switch {
		case errors.Is(err, simpledb.ErrNotFound):
			r = "none"
		case err != nil:
			r = "err:" + err.Error()
		default:
			r = valToken(v)
		}
	}
	x.rec.emit(M{"t": "ret", "g": g, "r": r})
}

// crash image of the quiescent database (directory copied while it is open), recovered by a separate process
func (x *dbExec) crashCheck(db *simpledb.DB, s dbStep) {
	atomic.AddInt32(&x.rec.barrier, 2)
	db.VerifFlushBarrier()
	x.drainBarrier()
	img := x.dir + "-crashimg"
	os.RemoveAll(img)
	if err := copyTree(x.dir, img); err != nil {
		x.rec.emit(M{"t": "note", "name": "crashcheck copy failed: " + err.Error()})
		return
	}
	defer os.RemoveAll(img)
	res := readImage(img, x.keys, s.K, 20*time.Second)
	x.rec.emit(M{"t": "crashobs", "ok": res.Ok, "err": res.Err, "m": res.M})
}

// C19: a copy of the live directory whose newest WAL file is cut inside its last record (what a kill leaves with a buffered log) is
// opened IN THIS PROCESS, read and closed; afterwards nothing under that copy may be open or mapped any more.
func (x *dbExec) tornReopen(db *simpledb.DB, s dbStep) {
	atomic.AddInt32(&x.rec.barrier, 2)
	db.VerifFlushBarrier()
	x.drainBarrier()
	img := x.dir + "-torn"
	os.RemoveAll(img)
	if err := copyTree(x.dir, img); err != nil {
		x.rec.emit(M{"t": "note", "name": "tornreopen copy failed: " + err.Error()})
		return
	}
	defer os.RemoveAll(img)
	ws, _ := filepath.Glob(filepath.Join(img, simpledb.WriteAheadFolder, "*.wal"))
	sort.Strings(ws)
	cut := false
	if len(ws) > 0 {
		if st, err := os.Stat(ws[len(ws)-1]); err == nil && st.Size() > 12 {
			cut = os.Truncate(ws[len(ws)-1], st.Size()-3) == nil
		}
	}
	// ... and the debris of a compaction that was killed right after creating its success marker: an EMPTY marker file
	cdir := filepath.Join(img, simpledb.SSTableCompactionPathPrefix+"424242")
	if os.MkdirAll(cdir, 0o700) == nil {
		os.WriteFile(filepath.Join(cdir, simpledb.CompactionFinishedSuccessfulFileName), nil, 0o600)
	}
	atomic.StoreInt32(&x.rec.muted, 1)
	atomic.StoreInt32(&x.rec.opening, 1)
	d2, err := simpledb.NewSimpleDB(img, simpledb.DisableCompactions())
	oerr := ""
	if err == nil {
		if err = d2.Open(); err == nil {
			for _, k := range x.keys {
				d2.GetBytes(k)
			}
			err = d2.Close()
		}
	}
	atomic.StoreInt32(&x.rec.opening, 0)
	atomic.StoreInt32(&x.rec.muted, 0)
	if err != nil {
		oerr = err.Error()
	}
	fds, maps := countFds(img), countMaps(img)
	for try := 0; try < 200 && (fds != 0 || maps != 0); try++ {
		time.Sleep(2 * time.Millisecond)
		fds, maps = countFds(img), countMaps(img)
	}
	x.rec.emit(M{"t": "note", "name": fmt.Sprintf("tornreopen: newest WAL file cut=%v, open/close error=%q", cut, oerr)})
	x.rec.emit(M{"t": "libobs", "case": -1, "closed": true, "fds": fds, "maps": maps, "bound": 0, "what": "database on a directory with a torn WAL tail, after Close"})
}

// quiescent-point observation of descriptors, mappings and goroutines that belong to the database directory / the module (C19)
func (x *dbExec) observe(db *simpledb.DB) {
	tables := -1
	if db != nil {
		atomic.AddInt32(&x.rec.barrier, 2)
		db.VerifFlushBarrier()
		x.drainBarrier()
		tables = len(db.VerifTables())
	}
	fds, maps, gor := 0, 0, 0
	// settle loop: background goroutines that are about to exit need a moment
	for try := 0; try < 5000; try++ {
		// quiescent = no compaction cycle between its selection and its reflect while we count
		epoch := atomic.LoadInt32(&x.rec.compactEpoch)
		busy := atomic.LoadInt32(&x.rec.compacting) != 0
		fds, maps = countFds(x.dir), countMaps(x.dir)
		gor = moduleGoroutines()
		if db != nil && !busy && epoch == atomic.LoadInt32(&x.rec.compactEpoch) && atomic.LoadInt32(&x.rec.compacting) == 0 {
			tables = len(db.VerifTables())
			break
		}
		if db == nil && fds == 0 && maps == 0 && gor == 0 {
			break
		}
		time.Sleep(2 * time.Millisecond)
	}
	x.rec.emit(M{"t": "obs", "open": db != nil, "tables": tables, "fds": fds, "maps": maps, "gor": gor})
}

func countFds(dir string) int {
	n := 0
	ents, err := os.ReadDir("/proc/self/fd")
	if err != nil {
		return -1
	}
	for _, e := range ents {
		t, err := os.Readlink(filepath.Join("/proc/self/fd", e.Name()))
		if err == nil && strings.HasPrefix(t, dir) {
			n++
		}
	}
	return n
}

func countMaps(dir string) int {
	b, err := os.ReadFile("/proc/self/maps")
	if err != nil {
		return -1
	}
	n := 0
	for _, ln := range strings.Split(string(b), "\n") {
		if strings.Contains(ln, dir) {
			n++
		}
	}
	return n
}

// goroutines with a frame inside the library (not the harness' own)
func moduleGoroutines() int {
	buf := make([]byte, 1<<20)
	buf = buf[:runtime.Stack(buf, true)]
	n := 0
	for _, g := range strings.Split(string(buf), "\n\n") {
		if strings.Contains(g, "go-sstables/simpledb.") || strings.Contains(g, "go-sstables/sstables.") || strings.Contains(g, "go-sstables/recordio.") ||
			strings.Contains(g, "go-sstables/wal.") {
			if !strings.Contains(g, "main.(*dbExec)") && !strings.Contains(g, "main.runDB") {
				n++
			}
		}
	}
	return n
}

// ---- deterministic interleavings through the scheduling gates (C05): the distinguishing schedules of SimpleDB.tla's concurrent model
// (install between the two reads of a Get; reflect while a Get holds the read lock; second rotation while the first flush is running).
// A step the specification says is NOT enabled is attempted and must stay blocked until its enabler is released ("disabledness test").

type gateCtl struct {
	mu      sync.Mutex
	hold    map[string]chan struct{}
	arrived map[string]int
}

func (g *gateCtl) fn(point string) {
	g.mu.Lock()
	ch, ok := g.hold[point]
	if ok {
		g.arrived[point]++
	}
	g.mu.Unlock()
	if ok {
		<-ch
	}
}

func (g *gateCtl) holdPoint(p string) {
	g.mu.Lock()
	g.hold[p] = make(chan struct{})
	g.mu.Unlock()
}

func (g *gateCtl) release(p string) {
	g.mu.Lock()
	ch, ok := g.hold[p]
	delete(g.hold, p)
	g.mu.Unlock()
	if ok {
		close(ch)
	}
}

func (g *gateCtl) await(p string, n int, d time.Duration) bool {
	dl := time.Now().Add(d)
	for time.Now().Before(dl) {
		g.mu.Lock()
		a := g.arrived[p]
		g.mu.Unlock()
		if a >= n {
			return true
		}
		time.Sleep(200 * time.Microsecond)
	}
	return false
}

// stays blocked for `d` (and at least some scheduler yields)? true = still blocked
func stillBlocked(done chan struct{}, d time.Duration) bool {
	for i := 0; i < 50; i++ {
		runtime.Gosched()
	}
	select {
	case <-done:
		return false
	case <-time.After(d):
		return true
	}
}

func (r *dbRecorder) countOf(name string) int {
	r.mu.Lock()
	defer r.mu.Unlock()
	return r.counts[name]
}

func (x *dbExec) window(db *simpledb.DB, s dbStep) (closed bool) {
	rec := x.rec
	ctl := &gateCtl{hold: map[string]chan struct{}{}, arrived: map[string]int{}}
	old := simpledb.VerifGateFn
	simpledb.VerifGateFn = ctl.fn
	defer func() { simpledb.VerifGateFn = old }()
	spawn := func(f func()) chan struct{} {
		done := make(chan struct{})
		go func() { defer close(done); f() }()
		return done
	}
	note := func(what, by string, still bool) {
		rec.emit(M{"t": "blocked", "what": what, "by": by, "still": still})
	}
	const wait = 30 * time.Second
	switch s.V {
	case "install-between-reads":
		x.step(db, dbStep{Op: "put", K: 0, V: "w1a", Pad: 5}, 0)
		x.step(db, dbStep{Op: "put", K: 1, V: "w1b", Pad: 5}, 0)
		ctl.holdPoint("flush.written")
		r := spawn(func() { db.VerifRotate() })
		if !ctl.await("flush.written", 1, wait) {
			rec.emit(M{"t": "note", "name": "window not reached: flush.written"})
			ctl.release("flush.written")
			<-r
			return false
		}
		<-r
		ctl.holdPoint("get.between")
		installs := rec.countOf("install")
		g := spawn(func() { x.get(db, 0, 1, "bytes") })
		ctl.await("get.between", 1, wait)
		ctl.release("flush.written")
		for i := 0; i < 100000 && rec.countOf("install") == installs; i++ {
			time.Sleep(200 * time.Microsecond)
		}
		rec.emit(M{"t": "note", "name": fmt.Sprintf("install landed between the two reads: %v", rec.countOf("install") > installs)})
		ctl.release("get.between")
		<-g
	case "reflect-while-get":
		for t := 0; t < 2; t++ {
			x.step(db, dbStep{Op: "put", K: t, V: fmt.Sprintf("w2%c", 'a'+t), Pad: 5}, 0)
			x.step(db, dbStep{Op: "rotate"}, 0)
			x.step(db, dbStep{Op: "barrier"}, 0)
		}
		ctl.holdPoint("get.between")
		g := spawn(func() { x.get(db, 0, 1, "bytes") })
		if !ctl.await("get.between", 1, wait) {
			ctl.release("get.between")
			<-g
			return false
		}
		c := spawn(func() { db.VerifCompactOnce() })
		// the compaction may merge, but its reflect needs the database write lock, which the reader holds
		note("reflect", "get", stillBlocked(c, 60*time.Millisecond) && rec.countOf("reflect.done") == 0)
		ctl.release("get.between")
		<-g
		<-c
	case "second-rotation-waits":
		x.step(db, dbStep{Op: "put", K: 0, V: "w3a", Pad: 5}, 0)
		ctl.holdPoint("flush.written")
		r1 := spawn(func() { db.VerifRotate() })
		if !ctl.await("flush.written", 1, wait) {
			ctl.release("flush.written")
			<-r1
			return false
		}
		<-r1
		x.step(db, dbStep{Op: "put", K: 1, V: "w3b", Pad: 5}, 0)
		r2 := spawn(func() { db.VerifRotate() })
		// the second hand-off must wait until the flusher is back at the channel, i.e. after the first table is installed
		note("handoff", "flush-in-progress", stillBlocked(r2, 60*time.Millisecond))
		g := spawn(func() { x.get(db, 0, 2, "bytes") })
		// and while the rotation holds the write lock no reader may run (the first store is in neither memstore nor table list)
		note("get", "rotation-holding-lock", stillBlocked(g, 60*time.Millisecond))
		ctl.release("flush.written")
		<-r2
		<-g
	case "close-while-flushing":
		// C19: Close joins the flusher however long the last flush takes; it must not return while the flusher is still at work
		// (s.Us = how long the flusher is held, in microseconds)
		x.step(db, dbStep{Op: "put", K: 0, V: "w6a", Pad: 5}, 0)
		ctl.holdPoint("flush.written") // the flush of the LAST memstore, handed over by Close itself, is parked here
		c := spawn(func() {
			if err := db.Close(); err != nil {
				rec.emit(M{"t": "bgfail", "msg": "close failed: " + err.Error()})
			}
		})
		if !ctl.await("flush.written", 1, wait) {
			rec.emit(M{"t": "note", "name": "window not reached: flush.written"})
			ctl.release("flush.written")
			<-c
			return true
		}
		hold := time.Duration(s.Us) * time.Microsecond
		if hold <= 0 {
			hold = 2 * time.Second
		}
		note("close", "flush-in-progress", stillBlocked(c, hold))
		ctl.release("flush.written")
		<-c
		return true
	case "open-while-compacting":
		// C17: Open on a handle that is already open must be refused WITHOUT any effect - also while a compaction sits between its merge
		// and its reflect (the folder of the running compaction is not debris of a crash)
		for t := 0; t < 2; t++ {
			x.step(db, dbStep{Op: "put", K: t, V: fmt.Sprintf("w5%c", 'a'+t), Pad: 5}, 0)
			x.step(db, dbStep{Op: "rotate"}, 0)
			x.step(db, dbStep{Op: "barrier"}, 0)
		}
		ctl.holdPoint("compact.merged")
		c := spawn(func() {
			if _, err := db.VerifCompactOnce(); err != nil {
				rec.emit(M{"t": "bgfail", "msg": "compaction failed: " + err.Error()})
			}
		})
		if !ctl.await("compact.merged", 1, wait) {
			rec.emit(M{"t": "note", "name": "window not reached: compact.merged"})
			ctl.release("compact.merged")
			<-c
			return false
		}
		err := db.Open()
		rec.emit(M{"t": "note", "name": fmt.Sprintf("second Open while compacting: %v", err)})
		if err == nil {
			rec.emit(M{"t": "bgfail", "msg": "Open on an open handle was accepted"})
		}
		ctl.release("compact.merged")
		<-c
	case "close-while-compacting":
		// needs background compaction: the compactor is parked after its merge, Close runs until it waits for the compactor, and only
		// then the compaction reflects its result (C19: whatever that reflect installs must be released by Close as well)
		ctl.holdPoint("compact.merged")
		reached := false
		for t := 0; t < 12 && !reached; t++ { // until the compactor has more tables than its threshold and has merged them
			x.step(db, dbStep{Op: "put", K: t % len(x.keys), V: fmt.Sprintf("w4%c", 'a'+t), Pad: 5}, 0)
			x.step(db, dbStep{Op: "rotate"}, 0)
			x.step(db, dbStep{Op: "barrier"}, 0)
			reached = ctl.await("compact.merged", 1, 30*time.Millisecond)
		}
		if !reached && !ctl.await("compact.merged", 1, wait) {
			rec.emit(M{"t": "note", "name": "window not reached: compact.merged"})
			ctl.release("compact.merged")
			if err := db.Close(); err != nil {
				rec.emit(M{"t": "bgfail", "msg": "close failed: " + err.Error()})
			}
			return true
		}
		before, reflects := rec.countOf("close.flusher"), rec.countOf("reflect.done")
		c := spawn(func() {
			if err := db.Close(); err != nil {
				rec.emit(M{"t": "bgfail", "msg": "close failed: " + err.Error()})
			}
		})
		for i := 0; i < 150000 && rec.countOf("close.flusher") == before; i++ {
			time.Sleep(200 * time.Microsecond)
		}
		time.Sleep(20 * time.Millisecond) // Close is now waiting for the compactor (or, if it does not wait, going on releasing things)
		ctl.release("compact.merged")
		<-c
		rec.emit(M{"t": "note", "name": fmt.Sprintf("compaction reflected during Close: %v", rec.countOf("reflect.done") > reflects)})
		return true
	}
	return false
}

// ---- engine "lifecycle": call sequences on ONE handle in every phase (new / open / closed) - Lifecycle.tla
type lifecycleIn struct {
	Dir  string     `json:"dir"`
	Seqs [][]string `json:"seqs"`
}

func init() { register("lifecycle", runLifecycle) }

func lifeErr(err error) string {
	switch {
	case err == nil:
		return "ok"
	case errors.Is(err, simpledb.ErrNotOpenedYet):
		return "ErrNotOpenedYet"
	case errors.Is(err, simpledb.ErrAlreadyOpen):
		return "ErrAlreadyOpen"
	case errors.Is(err, simpledb.ErrAlreadyClosed):
		return "ErrAlreadyClosed"
	case errors.Is(err, simpledb.ErrNotFound):
		return "none"
	}
	return "err:" + err.Error()
}

func runLifecycle(args []string) error {
	var in lifecycleIn
	if err := readJSON(args[0], &in); err != nil {
		return err
	}
	tr, err := newTrace(args[1])
	if err != nil {
		return err
	}
	defer tr.close()
	log.SetOutput(io.Discard)
	for si, seq := range in.Seqs {
		dir := filepath.Join(in.Dir, fmt.Sprintf("lc%d", si))
		os.MkdirAll(dir, 0o700)
		db, err := simpledb.NewSimpleDB(dir, simpledb.DisableCompactions())
		if err != nil {
			return err
		}
		calls := []M{}
		opened, closed := false, false
		for i, op := range seq {
			v := fmt.Sprintf("v%d", i)
			r := ""
			switch op {
			case "open":
				e := db.Open()
				r = lifeErr(e)
				opened = opened || e == nil
			case "close":
				e := db.Close()
				r = lifeErr(e)
				closed = closed || e == nil
			case "put":
				r = lifeErr(db.Put("k", v))
			case "del":
				r = lifeErr(db.Delete("k"))
			case "get":
				got, e := db.Get("k")
				if e == nil {
					r = got
				} else {
					r = lifeErr(e)
				}
			}
			calls = append(calls, M{"op": op, "v": v, "r": r})
		}
		if opened && !closed {
			db.Close()
		}
		tr.emit(M{"t": "seq", "calls": calls})
		os.RemoveAll(dir)
	}
	return nil
}
