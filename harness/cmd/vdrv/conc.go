package main

import (
	"errors"
	"fmt"
	"io"
	"math/rand"
	"os"
	"path/filepath"
	"sync"

	"github.com/thomasjungblut/go-sstables/recordio"
	"github.com/thomasjungblut/go-sstables/skiplist"
	"github.com/thomasjungblut/go-sstables/sstables"
)

// engines "concsst" / "concrio" (C18): N goroutines issue random read calls against ONE table reader (default index loader) or ONE
// mmap RecordIO reader; every reply is logged in the trace formats of SSTableTrace.tla / RecordIOTrace.tla, so that TLC requires the
// single-threaded answer for each call. Built with -race: a race report or panic is an event no specification action matches.

type concIn struct {
	Dir        string `json:"dir"`
	NKeys      int    `json:"nkeys"`
	Goroutines int    `json:"goroutines"`
	Calls      int    `json:"calls"`
	Seed       int64  `json:"seed"`
	Comp       int    `json:"comp"`
	RecSize    int    `json:"recsize"`  // concrio: > 0 makes every record that many bytes longer (records larger than the 4 KiB seek window)
	Stack      bool   `json:"stack"`    // concsst: the reader under test is a stacked reader over two tables (every other written key in each)
	HashMode   string `json:"hashmode"` // concsst: "" default (verify on load) | "read" (verify every read) | "none"
	CutTail    bool   `json:"cuttail"`  // concrio: the file is cut inside its last record before the readers start (reads of it must fail, all others stay exact)
}

func init() { register("concsst", runConcSST); register("concrio", runConcRIO) }

func runConcSST(args []string) error {
	var in concIn
	if err := readJSON(args[0], &in); err != nil {
		return err
	}
	tr, err := newTrace(args[1])
	if err != nil {
		return err
	}
	defer tr.close()
	cmp := skiplist.BytesComparator{}
	n := in.NKeys
	key := func(r int) []byte { return []byte(fmt.Sprintf("k%06d", r)) }
	val := func(r int) []byte { return []byte(fmt.Sprintf("value-of-%d-%s", r, string(make([]byte, r%40)))) }
	dir := filepath.Join(in.Dir, "t")
	os.MkdirAll(dir, 0o700)
	w, err := sstables.NewSSTableStreamWriter(sstables.WriteBasePath(dir), sstables.WithKeyComparator(cmp), sstables.DataCompressionType(in.Comp))
	if err != nil {
		return err
	}
	if err := w.Open(); err != nil {
		return err
	}
	tr.emit(M{"t": "reset", "case": 0})
	for r := 1; r < n; r += 2 { // odd ranks are written, even ranks are absent probes
		if err := w.WriteNext(key(r), val(r)); err != nil {
			return err
		}
		tr.emit(M{"t": "write", "k": r, "v": fmt.Sprintf("v%d", r), "fault": "", "r": "ok", "hit": false})
	}
	if err := w.Close(); err != nil {
		return err
	}
	ropts := []sstables.ReadOption{sstables.ReadBasePath(dir), sstables.ReadWithKeyComparator(cmp)}
	switch in.HashMode {
	case "read":
		ropts = append(ropts, sstables.SkipHashCheckOnLoad(), sstables.EnableHashCheckOnReads())
	case "none":
		ropts = append(ropts, sstables.SkipHashCheckOnLoad())
	}
	var rd sstables.SSTableReaderI
	rd, err = sstables.NewSSTableReader(ropts...)
	if err != nil {
		return err
	}
	if in.Stack {
		// the same content behind a stacked reader: two tables holding every other written key each (the trace above describes their union)
		var members []sstables.SSTableReaderI
		for half := 0; half < 2; half++ {
			hdir := filepath.Join(in.Dir, fmt.Sprintf("h%d", half))
			os.MkdirAll(hdir, 0o700)
			hw, err := sstables.NewSSTableStreamWriter(sstables.WriteBasePath(hdir), sstables.WithKeyComparator(cmp), sstables.DataCompressionType(in.Comp))
			if err != nil {
				return err
			}
			if err := hw.Open(); err != nil {
				return err
			}
			for r, i := 1, 0; r < n; r, i = r+2, i+1 {
				if i%2 == half {
					if err := hw.WriteNext(key(r), val(r)); err != nil {
						return err
					}
				}
			}
			if err := hw.Close(); err != nil {
				return err
			}
			hopts := append([]sstables.ReadOption{sstables.ReadBasePath(hdir)}, ropts[1:]...)
			hr, err := sstables.NewSSTableReader(hopts...)
			if err != nil {
				return err
			}
			members = append(members, hr)
		}
		rd.Close()
		rd = sstables.NewSuperSSTableReader(members, cmp)
	}
	tok := func(k, v []byte) (int, string) {
		var r int
		fmt.Sscanf(string(k), "k%06d", &r)
		if string(v) == string(val(r)) {
			return r, fmt.Sprintf("v%d", r)
		}
		return r, fmt.Sprintf("UNKNOWN(len=%d)", len(v))
	}
	var mu sync.Mutex
	var evs []M
	var wg sync.WaitGroup
	for g := 0; g < in.Goroutines; g++ {
		wg.Add(1)
		go func(g int) {
			defer wg.Done()
			rng := rand.New(rand.NewSource(in.Seed*1000 + int64(g)))
			local := []M{}
			for c := 0; c < in.Calls; c++ {
				p := rng.Intn(n)
				switch rng.Intn(4) {
				case 0:
					ok, err := rd.Contains(key(p))
					r := fmt.Sprint(ok)
					if err != nil {
						r = "err:" + err.Error()
					}
					local = append(local, M{"t": "contains", "k": p, "r": r})
				case 1:
					v, err := rd.Get(key(p))
					r := ""
					switch {
					case errors.Is(err, sstables.NotFound):
						r = "NotFound"
					case err != nil:
						r = "err:" + err.Error()
					default:
						_, r = tok(key(p), v)
					}
					local = append(local, M{"t": "get", "k": p, "r": r})
				default:
					lo := p
					hi := lo + rng.Intn(12)
					if hi >= n {
						hi = n - 1
					}
					it, err := rd.ScanRange(key(lo), key(hi))
					out := [][]any{}
					es := ""
					if err != nil {
						es = "err:" + err.Error()
					} else {
						for {
							k, v, err := it.Next()
							if errors.Is(err, sstables.Done) {
								break
							}
							if err != nil {
								es = "err:" + err.Error()
								break
							}
							r, t := tok(k, v)
							out = append(out, []any{r, t})
						}
					}
					local = append(local, M{"t": "scanrange", "lo": lo, "hi": hi, "out": out, "err": es})
				}
			}
			mu.Lock()
			evs = append(evs, local...)
			mu.Unlock()
		}(g)
	}
	wg.Wait()
	rd.Close()
	for _, e := range evs {
		tr.emit(e)
	}
	return nil
}

func runConcRIO(args []string) error {
	var in concIn
	if err := readJSON(args[0], &in); err != nil {
		return err
	}
	tr, err := newTrace(args[1])
	if err != nil {
		return err
	}
	defer tr.close()
	os.MkdirAll(in.Dir, 0o700)
	path := filepath.Join(in.Dir, "f.rio")
	w, err := recordio.NewFileWriter(recordio.Path(path), recordio.CompressionType(in.Comp))
	if err != nil {
		return err
	}
	if err := w.Open(); err != nil {
		return err
	}
	tr.emit(M{"t": "reset", "case": 0})
	rng0 := rand.New(rand.NewSource(in.Seed))
	var offs []uint64
	payload := func(i int) []byte {
		b := []byte(fmt.Sprintf("rec-%05d-", i))
		for j := 0; j < i%97+in.RecSize; j++ {
			b = append(b, byte(j*7+i))
		}
		return b
	}
	for i := 0; i < in.NKeys; i++ {
		var rec []byte
		tk := fmt.Sprintf("r%d", i)
		if rng0.Intn(15) == 0 && !(in.CutTail && i == in.NKeys-1) {
			rec, tk = nil, "NIL"
		} else {
			rec = payload(i)
		}
		off, err := w.Write(rec)
		if err != nil {
			return err
		}
		offs = append(offs, off)
		tr.emit(M{"t": "w", "op": "write", "rec": tk + fmt.Sprintf("@%d", i), "j": 0, "off": int(off), "size": int(w.Size()), "target": 0, "err": ""})
	}
	size := w.Size()
	w.Close()
	st, _ := os.Stat(path)
	tr.emit(M{"t": "w", "op": "close", "rec": "", "j": 0, "off": 0, "size": int(st.Size()), "target": 0, "err": "", "dio": false})
	_ = size
	seekLimit := int(st.Size()) + 2
	if in.CutTail && len(offs) >= 2 {
		if err := os.Truncate(path, st.Size()-5); err != nil {
			return err
		}
		seekLimit = int(offs[len(offs)-2]) // SeekNext probes stay in front of the cut record
	}
	// before the concurrent part: the same file is read sequentially by readers that are then closed TWICE (defer + explicit) - whatever a
	// reader hands back on Close must not come back to haunt the readers that are opened afterwards
	for i := 0; i < 3; i++ {
		if sr, err := recordio.NewFileReaderWithPath(path); err == nil && sr.Open() == nil {
			sr.ReadNext()
			sr.Close()
			sr.Close()
		}
	}
	mr, err := recordio.NewMemoryMappedReaderWithPath(path)
	if err != nil {
		return err
	}
	if err := mr.Open(); err != nil {
		return err
	}
	// token of a returned record: identify by content
	tokOf := map[string]string{}
	for i := 0; i < in.NKeys; i++ {
		tokOf[string(payload(i))] = fmt.Sprintf("r%d", i)
	}
	idxOf := map[uint64]int{}
	for i, o := range offs {
		idxOf[o] = i
	}
	name := func(b []byte, off uint64) string {
		i, ok := idxOf[off]
		if !ok {
			return "UNKNOWN-OFFSET"
		}
		if b == nil {
			return fmt.Sprintf("NIL@%d", i)
		}
		if t, ok := tokOf[string(b)]; ok {
			return fmt.Sprintf("%s@%d", t, i)
		}
		return fmt.Sprintf("UNKNOWN(len=%d)@%d", len(b), i)
	}
	var mu sync.Mutex
	var evs []M
	var wg sync.WaitGroup
	for g := 0; g < in.Goroutines; g++ {
		wg.Add(1)
		go func(g int) {
			defer wg.Done()
			rng := rand.New(rand.NewSource(in.Seed*1000 + int64(g)))
			local := []M{}
			for c := 0; c < in.Calls; c++ {
				if rng.Intn(2) == 0 {
					i := rng.Intn(len(offs))
					if in.CutTail && rng.Intn(4) == 0 {
						i = len(offs) - 1 // the record the file was cut in: every fourth read fails, next to the succeeding ones
					}
					b, err := mr.ReadNextAt(offs[i])
					r := ""
					if err != nil {
						if errors.Is(err, io.EOF) {
							r = "EOF"
						} else {
							r = "err:" + err.Error()
						}
					} else {
						r = name(b, offs[i])
					}
					kind := "at"
					if in.CutTail && i == len(offs)-1 {
						kind = "atcut"
					}
					local = append(local, M{"t": kind, "i": i + 1, "off": int(offs[i]), "r": r})
				} else {
					from := rng.Intn(seekLimit)
					roff, b, err := mr.SeekNext(uint64(from))
					r := ""
					if err != nil {
						if errors.Is(err, io.EOF) {
							r = "EOF"
						} else {
							r = "err:" + err.Error()
						}
					} else {
						r = name(b, roff)
					}
					local = append(local, M{"t": "seeknext", "from": from, "roff": int(roff), "r": r})
				}
			}
			mu.Lock()
			evs = append(evs, local...)
			mu.Unlock()
		}(g)
	}
	wg.Wait()
	mr.Close()
	for _, e := range evs {
		tr.emit(e)
	}
	return nil
}
