package main

import (
	"bytes"
	"encoding/binary"
	"errors"
	"fmt"
	"os"
	"path/filepath"

	rProto "github.com/thomasjungblut/go-sstables/recordio/proto"
	"github.com/thomasjungblut/go-sstables/skiplist"
	"github.com/thomasjungblut/go-sstables/sstables"
	sProto "github.com/thomasjungblut/go-sstables/sstables/proto"
)

// engine "merge": builds lists of real tables (oldest -> newest), probes the stacked reader, runs Merge / MergeCompact into a new
// table and reads it back; with fault positions, wraps the input iterators / the output writer through the public interfaces (C08, C11).

type mergeCase struct {
	Tables  [][][2]any `json:"tables"` // per table ascending [rank, token]; token "NIL" = tombstone
	Probes  []int      `json:"probes"`
	Ranges  [][2]int   `json:"ranges"`
	Faults  []mFault   `json:"faults"`
	Super   bool       `json:"super"`
	V0      []int      `json:"v0"`      // tables written in the legacy (version 0) layout: no metadata file, values wrapped in a DataEntry message (only tables without nil / empty values)
	Nest    string     `json:"nest"`    // "" flat stack | "left": Super(Super(t0..tk-1), tk..) | "pairs": Super(Super(t0,t1), Super(t2,t3), ..) | "right": Super(t0, Super(t1..))
	Damage  *int       `json:"damage"`  // index of a table whose data file gets one byte of every record payload flipped before the readers (verify on read) are opened
	EmptyAt *int       `json:"emptyat"` // position in the stack at which the library's EmptySStableReader is inserted as one more member (holds nothing: changes nothing)
	Cmp     string     `json:"cmp"`     // "" bytes | "nocase": all tables, the stack and the merger run under the case-insensitive comparator; every other table spells its keys in upper case
	Loader  string     `json:"loader"`  // index loader of the input readers: "" default | disk | disk-shared (ONE loader value for all tables) | skiplist | map
}

type mFault struct {
	Kind   string `json:"kind"`   // compact-latest | compact-skiptomb | merge | superscan
	Input  int    `json:"input"`  // index of the failing input iterator (-1 none)
	InPos  int    `json:"inpos"`  // it fails at its InPos-th Next (0 based)
	OutPos int    `json:"outpos"` // the writer fails at its OutPos-th WriteNext (-1 none)
	Cut    bool   `json:"cut"`    // instead of an injected error: the input's data file ends in front of its InPos-th record (record boundary)
}

// start offsets of the records of a v4 RecordIO file (independent walk over the framing) followed by the file size
func recordStarts(data []byte) []int {
	var starts []int
	if len(data) < 8 {
		return []int{len(data)}
	}
	compressed := binary.LittleEndian.Uint32(data[4:8]) != 0
	for off := 8; off < len(data); {
		hl := headerLen(data[off:])
		if hl == 0 {
			break
		}
		_, k := binary.Uvarint(data[off:])
		isNil := data[off+k] == 1
		ulen, k2 := binary.Uvarint(data[off+k+1:])
		clen, _ := binary.Uvarint(data[off+k+1+k2:])
		stored := int(ulen)
		if compressed {
			stored = int(clen)
		}
		if isNil {
			stored = 0
		}
		starts = append(starts, off)
		off += hl + stored
	}
	return append(starts, len(data))
}

type mergeIn struct {
	Keys  []string          `json:"keys"`
	Vals  map[string]string `json:"vals"`
	Dir   string            `json:"dir"`
	Cases []mergeCase       `json:"cases"`
}

func init() { register("merge", runMerge) }

type failingIter struct {
	inner sstables.SSTableIteratorI
	n     int
	at    int
	hit   *bool
}

func (f *failingIter) Next() ([]byte, []byte, error) {
	if f.n == f.at {
		f.n++
		*f.hit = true
		return nil, nil, errors.New("injected input read failure")
	}
	f.n++
	return f.inner.Next()
}

type failingWriter struct {
	inner sstables.SSTableStreamWriterI
	n     int
	at    int
	hit   *bool
}

func (f *failingWriter) Open() error  { return f.inner.Open() }
func (f *failingWriter) Close() error { return f.inner.Close() }
func (f *failingWriter) WriteNext(k, v []byte) error {
	if f.n == f.at {
		f.n++
		*f.hit = true
		return errors.New("injected output write failure")
	}
	f.n++
	return f.inner.WriteNext(k, v)
}

// rewriteAsV0 replaces the table in dir by the same content in the legacy layout the readers still support (version 0: data.rio holds DataEntry
// messages, index.rio IndexEntry messages without checksum, there is neither a metadata file nor a bloom filter)
func rewriteAsV0(dir string, t [][2]any, keys [][]byte, vb func(string) []byte) error {
	for _, f := range []string{sstables.MetaFileName, sstables.BloomFileName, sstables.DataFileName, sstables.IndexFileName} {
		if err := os.Remove(filepath.Join(dir, f)); err != nil && !os.IsNotExist(err) {
			return err
		}
	}
	dw, err := rProto.NewWriter(rProto.Path(filepath.Join(dir, sstables.DataFileName)))
	if err != nil {
		return err
	}
	iw, err := rProto.NewWriter(rProto.Path(filepath.Join(dir, sstables.IndexFileName)))
	if err != nil {
		return err
	}
	if err := dw.Open(); err != nil {
		return err
	}
	if err := iw.Open(); err != nil {
		return err
	}
	for _, e := range t {
		off, err := dw.Write(&sProto.DataEntry{Value: vb(e[1].(string))})
		if err != nil {
			return err
		}
		if _, err := iw.Write(&sProto.IndexEntry{Key: keys[int(e[0].(float64))], ValueOffset: off}); err != nil {
			return err
		}
	}
	if err := dw.Close(); err != nil {
		return err
	}
	return iw.Close()
}

func runMerge(args []string) error {
	if len(args) != 2 {
		return fmt.Errorf("usage: merge <in.json> <out.ndjson>")
	}
	var in mergeIn
	if err := readJSON(args[0], &in); err != nil {
		return err
	}
	tr, err := newTrace(args[1])
	if err != nil {
		return err
	}
	defer tr.close()
	keys := make([][]byte, len(in.Keys))
	rank := map[string]int{}
	for i, h := range in.Keys {
		keys[i] = unhex(h)
		rank[string(keys[i])] = i
	}
	vals := map[string][]byte{}
	tokOf := map[string]string{}
	for t, h := range in.Vals {
		vals[t] = unhex(h)
		tokOf[string(vals[t])] = t
	}
	vb := func(t string) []byte {
		if t == "NIL" {
			return nil
		}
		if t == "EMPTY" {
			return []byte{}
		}
		return vals[t]
	}
	vt := func(b []byte) string {
		if b == nil {
			return "NIL"
		}
		if len(b) == 0 {
			return "EMPTY"
		}
		if t, ok := tokOf[string(b)]; ok {
			return t
		}
		return fmt.Sprintf("UNKNOWN:%x", b)
	}
	rk := func(b []byte) int {
		if r, ok := rank[string(b)]; ok {
			return r
		}
		if r, ok := rank[string(bytes.ToLower(b))]; ok {
			return r
		}
		return -2
	}
	var cmp skiplist.Comparator[[]byte] = skiplist.BytesComparator{}
	drain := func(it sstables.SSTableIteratorI, err error) ([][]any, string) {
		out := [][]any{}
		if err != nil {
			return out, "err:" + err.Error()
		}
		for {
			k, v, err := it.Next()
			if errors.Is(err, sstables.Done) {
				return out, ""
			}
			if err != nil {
				return out, "err:" + err.Error()
			}
			out = append(out, []any{rk(k), vt(v)})
			if len(out) > 100000 {
				return out, "err:iterator does not end"
			}
		}
	}
	readTable := func(dir string) ([][]any, string) {
		rd, err := sstables.NewSSTableReader(sstables.ReadBasePath(dir), sstables.ReadWithKeyComparator(cmp))
		if err != nil {
			return [][]any{}, "err:reader:" + err.Error()
		}
		defer rd.Close()
		it, err := rd.Scan()
		return drain(it, err)
	}

	for ci, c := range in.Cases {
		// the lists are built in the same two directories over and over (removed after each case)
		base := filepath.Join(in.Dir, fmt.Sprintf("m%d", ci%2))
		os.RemoveAll(base)
		tr.emit(M{"t": "reset", "case": ci})
		cmp = skiplist.BytesComparator{}
		if c.Cmp == "nocase" {
			cmp = nocaseCmp{}
			c.Loader = "skiplist" // the only index loader that orders keys with the comparator it is given
		}
		var readers []sstables.SSTableReaderI
		tabsJSON := []M{}
		sharedDisk := &sstables.DiskIndexLoader{}
		for ti, t := range c.Tables {
			dir := filepath.Join(base, fmt.Sprintf("t%d", ti))
			if err := os.MkdirAll(dir, 0o700); err != nil {
				return err
			}
			w, err := sstables.NewSSTableStreamWriter(sstables.WriteBasePath(dir), sstables.WithKeyComparator(cmp), sstables.WriteBufferSizeBytes(4096))
			if err != nil {
				return err
			}
			if err := w.Open(); err != nil {
				return err
			}
			tm := M{}
			for _, e := range t {
				k := int(e[0].(float64))
				tok := e[1].(string)
				wk := keys[k]
				if c.Cmp == "nocase" && ti%2 == 1 {
					wk = bytes.ToUpper(wk)
				}
				if err := w.WriteNext(wk, vb(tok)); err != nil {
					return fmt.Errorf("building table: %w", err)
				}
				tm[fmt.Sprint(k)] = tok
			}
			if err := w.Close(); err != nil {
				return err
			}
			for _, v0 := range c.V0 {
				plainVals := len(t) > 0
				for _, e := range t {
					if tok := e[1].(string); tok == "NIL" || tok == "EMPTY" {
						plainVals = false
					}
				}
				if v0 == ti && plainVals {
					if err := rewriteAsV0(dir, t, keys, vb); err != nil {
						return fmt.Errorf("writing v0 table: %w", err)
					}
				}
			}
			ropts := []sstables.ReadOption{sstables.ReadBasePath(dir), sstables.ReadWithKeyComparator(cmp)}
			if c.Damage != nil {
				ropts = append(ropts, sstables.SkipHashCheckOnLoad(), sstables.EnableHashCheckOnReads())
				if *c.Damage == ti {
					dp := filepath.Join(dir, sstables.DataFileName)
					if data, err := os.ReadFile(dp); err == nil {
						starts := recordStarts(data)
						for si := 0; si+1 < len(starts); si++ {
							if at := starts[si] + headerLen(data[starts[si]:]) + 1; at < starts[si+1] {
								data[at] ^= 0x55
							}
						}
						os.WriteFile(dp, data, 0o600)
					}
				}
			}
			switch c.Loader {
			case "disk":
				ropts = append(ropts, sstables.ReadIndexLoader(&sstables.DiskIndexLoader{}))
			case "disk-shared":
				ropts = append(ropts, sstables.ReadIndexLoader(sharedDisk))
			case "skiplist":
				ropts = append(ropts, sstables.ReadIndexLoader(&sstables.SkipListIndexLoader{KeyComparator: cmp, ReadBufferSize: 4096}))
			case "map":
				ropts = append(ropts, sstables.ReadIndexLoader(&sstables.MapKeyIndexLoader[string]{ReadBufferSize: 4096, Mapper: strMapper{}}))
			}
			rd, err := sstables.NewSSTableReader(ropts...)
			if err != nil {
				return err
			}
			readers = append(readers, rd)
			// every rank of the universe gets an entry (ABSENT when not in the table) so that the judge can index it
			full := M{}
			for r := range keys {
				if v, ok := tm[fmt.Sprint(r)]; ok {
					full[fmt.Sprint(r)] = v
				} else {
					full[fmt.Sprint(r)] = "ABSENT"
				}
			}
			tabsJSON = append(tabsJSON, full)
		}
		tabList := make([][]string, len(tabsJSON))
		for i, f := range tabsJSON {
			row := make([]string, len(keys))
			for r := range keys {
				row[r] = f[fmt.Sprint(r)].(string)
			}
			tabList[i] = row
		}
		tr.emit(M{"t": "tables", "tabs": tabList, "nkeys": len(keys)})

		if c.Super {
			members := readers
			switch {
			case c.Nest == "left" && len(readers) >= 2:
				k := (len(readers) + 1) / 2
				members = append([]sstables.SSTableReaderI{sstables.NewSuperSSTableReader(readers[:k], cmp)}, readers[k:]...)
			case c.Nest == "right" && len(readers) >= 2:
				members = []sstables.SSTableReaderI{readers[0], sstables.NewSuperSSTableReader(readers[1:], cmp)}
			case c.Nest == "pairs" && len(readers) >= 2:
				members = nil
				for i := 0; i < len(readers); i += 2 {
					j := i + 2
					if j > len(readers) {
						j = len(readers)
					}
					members = append(members, sstables.NewSuperSSTableReader(readers[i:j], cmp))
				}
			}
			if c.EmptyAt != nil && *c.EmptyAt >= 0 && *c.EmptyAt <= len(members) {
				at := *c.EmptyAt
				members = append(append(append([]sstables.SSTableReaderI{}, members[:at]...), sstables.EmptySStableReader{}), members[at:]...)
			}
			sup := sstables.NewSuperSSTableReader(members, cmp)
			// lookup keys travel in ONE buffer that is refilled for the next call
			var probeBuf []byte
			inBuf := func(k []byte) []byte {
				for i := range probeBuf {
					probeBuf[i] = 0xEE
				}
				probeBuf = append(probeBuf[:0], k...)
				return probeBuf[:len(k):len(k)]
			}
			if c.Damage != nil {
				for _, p := range c.Probes {
					v, err := sup.Get(inBuf(keys[p]))
					r := ""
					switch {
					case errors.Is(err, sstables.NotFound):
						r = "NotFound"
					case err != nil:
						r = "err:" + err.Error()
					default:
						r = vt(v)
					}
					tr.emit(M{"t": "dmgget", "k": p, "r": r})
				}
				for _, rd := range readers {
					rd.Close()
				}
				os.RemoveAll(base)
				continue
			}
			for _, p := range c.Probes {
				ok, err := sup.Contains(inBuf(keys[p]))
				r := fmt.Sprint(ok)
				if err != nil {
					r = "err:" + err.Error()
				}
				if c.Cmp != "nocase" { // the bloom filter hashes bytes: under a comparator that identifies different byte strings Contains is not comparable
					tr.emit(M{"t": "contains", "k": p, "r": r})
				}
				v, err := sup.Get(inBuf(keys[p]))
				switch {
				case errors.Is(err, sstables.NotFound):
					tr.emit(M{"t": "get", "k": p, "r": "NotFound"})
				case err != nil:
					tr.emit(M{"t": "get", "k": p, "r": "err:" + err.Error()})
				default:
					tr.emit(M{"t": "get", "k": p, "r": vt(v)})
				}
				out, e := drain(sup.ScanStartingAt(inBuf(keys[p])))
				tr.emit(M{"t": "scanfrom", "k": p, "out": out, "err": e})
			}
			out, e := drain(sup.Scan())
			tr.emit(M{"t": "scan", "out": out, "err": e})
			for _, r := range c.Ranges {
				out, e := drain(sup.ScanRange(keys[r[0]], keys[r[1]]))
				tr.emit(M{"t": "scanrange", "lo": r[0], "hi": r[1], "out": out, "err": e})
			}
		}

		for fi, f := range c.Faults {
			hit := false
			cutOpenErr := ""
			var cutReaders []sstables.SSTableReaderI
			var its []sstables.SSTableMergeIteratorContext
			var plain []sstables.SSTableIteratorI
			for i, rd := range readers {
				sc, err := rd.Scan()
				if err != nil {
					return err
				}
				var it sstables.SSTableIteratorI = sc
				if f.Input == i && f.Cut {
					// the same table with its data file cut at a record boundary, opened without the load-time validation
					cdir := filepath.Join(base, fmt.Sprintf("cut%d", fi))
					if err := copyTree(filepath.Join(base, fmt.Sprintf("t%d", i)), cdir); err != nil {
						return err
					}
					dp := filepath.Join(cdir, sstables.DataFileName)
					data, err := os.ReadFile(dp)
					if err != nil {
						return err
					}
					if starts := recordStarts(data); f.InPos < len(starts)-1 {
						if err := os.Truncate(dp, int64(starts[f.InPos])); err != nil {
							return err
						}
						hit = true
					}
					crd, err := openReaderSafe(sstables.ReadBasePath(cdir), sstables.ReadWithKeyComparator(cmp), sstables.SkipHashCheckOnLoad())
					if err != nil {
						cutOpenErr = "err:open:" + err.Error()
					} else {
						cutReaders = append(cutReaders, crd)
						if csc, err := crd.Scan(); err != nil {
							cutOpenErr = "err:scan:" + err.Error()
						} else {
							it = csc
						}
					}
				} else if f.Input == i {
					it = &failingIter{inner: sc, at: f.InPos, hit: &hit}
				}
				its = append(its, sstables.NewMergeIteratorContext(i, it))
				plain = append(plain, it)
			}
			_ = plain
			merr := ""
			var out [][]any
			oerr := ""
			if f.Kind == "superscan" {
				mi, err := sstables.NewSSTableMerger(cmp).MergeCompactIterator(its, sstables.ScanReduceLatestWins)
				out, oerr = drain(mi, err)
				merr = oerr
			} else {
				dir := filepath.Join(base, fmt.Sprintf("out%d", fi))
				if err := os.MkdirAll(dir, 0o700); err != nil {
					return err
				}
				w, err := sstables.NewSSTableStreamWriter(sstables.WriteBasePath(dir), sstables.WithKeyComparator(cmp), sstables.WriteBufferSizeBytes(4096))
				if err != nil {
					return err
				}
				if err := w.Open(); err != nil {
					return err
				}
				var sw sstables.SSTableStreamWriterI = w
				if f.OutPos >= 0 {
					sw = &failingWriter{inner: w, at: f.OutPos, hit: &hit}
				}
				var e error
				switch f.Kind {
				case "compact-latest":
					e = sstables.NewSSTableMerger(cmp).MergeCompact(its, sw, sstables.ScanReduceLatestWins)
				case "compact-skiptomb":
					e = sstables.NewSSTableMerger(cmp).MergeCompact(its, sw, sstables.ScanReduceLatestWinsSkipTombstones)
				case "merge":
					e = sstables.NewSSTableMerger(cmp).Merge(its, sw)
				default:
					return fmt.Errorf("unknown merge kind %q", f.Kind)
				}
				if e != nil {
					merr = "err:" + e.Error()
				}
				if ce := w.Close(); ce != nil && merr == "" {
					merr = "err:close:" + ce.Error()
				}
				out, oerr = readTable(dir)
				os.RemoveAll(dir)
			}
			if cutOpenErr != "" && merr == "" {
				merr = cutOpenErr // the damaged input was already refused when it was opened / scanned
			}
			for _, crd := range cutReaders {
				crd.Close()
			}
			tr.emit(M{"t": "merged", "kind": f.Kind, "input": f.Input, "inpos": f.InPos, "outpos": f.OutPos, "hit": hit, "cut": f.Cut,
				"err": merr, "out": out, "readerr": oerr})
		}
		for _, rd := range readers {
			rd.Close()
			rd.Close() // a second Close (defer + explicit) may fail but must leave every other reader alone
		}
		os.RemoveAll(base)
	}
	return nil
}
