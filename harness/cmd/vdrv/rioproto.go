package main

import (
	"fmt"
	"os"

	rproto "github.com/thomasjungblut/go-sstables/recordio/proto"
	sProto "github.com/thomasjungblut/go-sstables/sstables/proto"
)

// the protobuf access path of RecordIO (package recordio/proto): the same writer programs (without Seek, which the proto writer does not
// offer), every record a DataEntry message whose `value` is the payload; read back by the proto reader (ReadNext / SkipNext programs) and by
// the memory mapped proto reader (ReadNextAt at every returned offset, SeekNext from the given offsets).  The events are the ones of the
// plain engine, so RecordIOTrace.tla judges them with the same clauses.  A message without payload marshals to zero bytes: the record token
// is EMPTY (the proto path cannot express a nil record).
func runProtoCase(tr *traceWriter, path string, c rioCase, rb func(string) []byte, tokOf map[string]string, errTok func(error) string) error {
	rtp := func(m *sProto.DataEntry) string {
		if len(m.Value) == 0 {
			return "EMPTY"
		}
		if t, ok := tokOf[string(m.Value)]; ok {
			return t
		}
		return fmt.Sprintf("UNKNOWN(len=%d)", len(m.Value))
	}
	wopts := []rproto.WriterOption{rproto.Path(path), rproto.CompressionType(c.Comp)}
	if c.WBuf > 0 {
		wopts = append(wopts, rproto.WriteBufferSizeBytes(c.WBuf))
	}
	w, err := rproto.NewWriter(wopts...)
	if err != nil {
		return err
	}
	if err := w.Open(); err != nil {
		tr.emit(M{"t": "w", "op": "open", "rec": "", "j": 0, "off": 0, "size": 0, "target": 0, "err": err.Error()})
		return nil
	}
	var offs []uint64
	closed := false
	// ONE message object is reused for every write and scribbled on afterwards: the writer must not keep it
	msg := &sProto.DataEntry{}
	for _, op := range c.Ops {
		switch op.Op {
		case "write", "writesync":
			msg.Value = append(msg.Value[:0], rb(op.Rec)...)
			var off uint64
			var err error
			if op.Op == "write" {
				off, err = w.Write(msg)
			} else {
				off, err = w.WriteSync(msg)
			}
			for i := range msg.Value {
				msg.Value[i] = 0xEE
			}
			es := ""
			if err != nil {
				es = err.Error()
			} else {
				offs = append(offs, off)
			}
			tr.emit(M{"t": "w", "op": op.Op, "rec": op.Rec, "j": 0, "off": int(off), "size": int(w.Size()), "target": 0, "err": es})
		case "close":
			err := w.Close()
			closed = true
			es := ""
			if err != nil {
				es = err.Error()
			}
			st, _ := os.Stat(path)
			tr.emit(M{"t": "w", "op": "close", "rec": "", "j": 0, "off": 0, "size": int(st.Size()), "target": 0, "err": es, "dio": false})
		}
	}
	if !closed {
		w.Close()
	}
	st, err := os.Stat(path)
	if err != nil {
		return err
	}
	size := int(st.Size())

	seq := func(prog []int, how string) ([]string, string) {
		out := []string{}
		var r rproto.ReaderI
		var err error
		switch how {
		case "file":
			var f *os.File
			if f, err = os.Open(path); err == nil {
				r, err = rproto.NewReader(rproto.ReaderFile(f))
			}
		case "deprecated":
			r, err = rproto.NewProtoReaderWithPath(path)
		default:
			ropts := []rproto.ReaderOption{rproto.ReaderPath(path)}
			if c.RBuf > 0 {
				ropts = append(ropts, rproto.ReadBufferSizeBytes(c.RBuf))
			}
			r, err = rproto.NewReader(ropts...)
		}
		if err != nil {
			return out, "openerr:" + err.Error()
		}
		if err := r.Open(); err != nil {
			return out, "openerr:" + err.Error()
		}
		defer r.Close()
		// the message handed to ReadNext is reused: a record must replace, not extend, what the previous one left in it
		m := &sProto.DataEntry{}
		for i := 0; i < 100000; i++ {
			if len(prog) > 0 && prog[i%len(prog)] == 0 {
				if err := r.SkipNext(); err != nil {
					return out, errTok(err)
				}
				out = append(out, "skipped")
				continue
			}
			got, err := r.ReadNext(m)
			if err != nil {
				return out, errTok(err)
			}
			out = append(out, rtp(got.(*sProto.DataEntry)))
		}
		return out, "err:reader does not end"
	}
	for _, how := range []string{"", "file", "deprecated"} {
		out, end := seq(nil, how)
		tr.emit(M{"t": "seq", "prog": []int{}, "out": out, "end": end})
	}
	if len(c.ReadProg) > 0 {
		out, end := seq(c.ReadProg, "")
		tr.emit(M{"t": "seq", "prog": c.ReadProg, "out": out, "end": end})
	}
	mr, err := rproto.NewMMapProtoReaderWithPath(path)
	if err == nil {
		err = mr.Open()
	}
	if err != nil {
		tr.emit(M{"t": "mmapopen", "err": err.Error()})
		os.Remove(path)
		return nil
	}
	for i, off := range offs {
		r := ""
		if got, err := mr.ReadNextAt(&sProto.DataEntry{}, off); err != nil {
			r = errTok(err)
		} else {
			r = rtp(got.(*sProto.DataEntry))
		}
		tr.emit(M{"t": "at", "i": i + 1, "off": int(off), "r": r})
	}
	froms := append([]int{}, c.Seeks...)
	if c.SeekAll && size <= 1500 {
		froms = froms[:0]
		for o := 0; o <= size+1; o++ {
			froms = append(froms, o)
		}
	} else {
		for _, off := range offs {
			for d := -3; d <= 12; d++ {
				if int(off)+d >= 0 {
					froms = append(froms, int(off)+d)
				}
			}
		}
		froms = append(froms, size-1, size, size+1)
	}
	for _, o := range froms {
		r := ""
		roff, got, err := mr.SeekNext(&sProto.DataEntry{}, uint64(o))
		if err != nil {
			r = errTok(err)
		} else {
			r = rtp(got.(*sProto.DataEntry))
		}
		tr.emit(M{"t": "seeknext", "from": o, "roff": int(roff), "r": r})
	}
	mr.Close()
	os.Remove(path)
	return nil
}
