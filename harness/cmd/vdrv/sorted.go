package main

import (
	"encoding/binary"
	"errors"
	"fmt"

	"github.com/thomasjungblut/go-sstables/pq"
	"github.com/thomasjungblut/go-sstables/skiplist"
)

// engine "sorted" (C16): skip-list map under int / string / bytes comparators and the merge heap over ascending inputs.

type sortedCase struct {
	Kind    string    `json:"kind"` // skiplist | pq
	Cmp     string    `json:"cmp"`  // int | string | bytes
	Inserts []int     `json:"inserts"`
	Probes  []int     `json:"probes"`
	Ranges  [][2]int  `json:"ranges"`
	Inputs  [][]int   `json:"inputs"`
	Live    *liveIter `json:"live"` // an iterator that is open while more keys are inserted
}

type liveIter struct {
	Kind string `json:"kind"` // all | from | between
	Lo   int    `json:"lo"`
	Hi   int    `json:"hi"`
	Pre  int    `json:"pre"`  // Next calls before the late keys are inserted
	Late []int  `json:"late"` // keys inserted while the iterator is open
}

type sortedIn struct {
	Cases []sortedCase `json:"cases"`
}

func init() { register("sorted", runSorted) }

// order preserving encodings of ranks (ranks may be negative for probes below the minimum)
func rkString(r int) string { return fmt.Sprintf("%08d", r+1000) }
func rkBytes(r int) []byte {
	b := make([]byte, 4)
	binary.BigEndian.PutUint32(b, uint32(r+1000))
	return b
}

type slI interface {
	insert(r int)
	size() int
	contains(r int) bool
	get(r int) (int, bool)
	iter() ([]int, string)
	iterFrom(r int) ([]int, string)
	between(lo, hi int) ([]int, string)
	live(l *liveIter) ([]int, string)
}

type slOf[K any] struct {
	m   skiplist.MapI[K, int]
	enc func(int) K
	dec func(K) int
}

func drainSL[K any](it skiplist.IteratorI[K, int], err error, dec func(K) int) ([]int, string) {
	out := []int{}
	if err != nil {
		return out, "err:" + err.Error()
	}
	for n := 0; n < 1000000; n++ {
		k, v, err := it.Next()
		if errors.Is(err, skiplist.Done) {
			return out, ""
		}
		if err != nil {
			return out, "err:" + err.Error()
		}
		if v != dec(k)*10+1 {
			return out, "err:value of another key"
		}
		out = append(out, dec(k))
	}
	return out, "err:iterator does not end"
}

func (s *slOf[K]) insert(r int)        { s.m.Insert(s.enc(r), r*10+1) }
func (s *slOf[K]) size() int           { return s.m.Size() }
func (s *slOf[K]) contains(r int) bool { return s.m.Contains(s.enc(r)) }
func (s *slOf[K]) get(r int) (int, bool) {
	v, err := s.m.Get(s.enc(r))
	return v, err == nil
}
func (s *slOf[K]) iter() ([]int, string) { it, err := s.m.Iterator(); return drainSL(it, err, s.dec) }
func (s *slOf[K]) iterFrom(r int) ([]int, string) {
	it, err := s.m.IteratorStartingAt(s.enc(r))
	return drainSL(it, err, s.dec)
}
func (s *slOf[K]) between(lo, hi int) ([]int, string) {
	it, err := s.m.IteratorBetween(s.enc(lo), s.enc(hi))
	return drainSL(it, err, s.dec)
}

// live: create the iterator, take l.Pre entries, insert the late keys, drain
func (s *slOf[K]) live(l *liveIter) ([]int, string) {
	var it skiplist.IteratorI[K, int]
	var err error
	switch l.Kind {
	case "all":
		it, err = s.m.Iterator()
	case "from":
		it, err = s.m.IteratorStartingAt(s.enc(l.Lo))
	default:
		it, err = s.m.IteratorBetween(s.enc(l.Lo), s.enc(l.Hi))
	}
	if err != nil {
		return []int{}, "err:" + err.Error()
	}
	out := []int{}
	for i := 0; i < l.Pre; i++ {
		k, _, err := it.Next()
		if err != nil {
			break
		}
		out = append(out, s.dec(k))
	}
	for _, r := range l.Late {
		s.insert(r)
	}
	rest, e := drainSL(it, nil, s.dec)
	return append(out, rest...), e
}

// a consistent comparator that returns magnitudes other than -1 / 0 / 1
type diffCmp struct{}

func (diffCmp) Compare(a, b int) int { return (a - b) * 7 }

// []byte keys whose order under the comparator (little-endian number) differs from their lexicographic order
type leCmp struct{}

func (leCmp) Compare(a, b []byte) int {
	x, y := binary.LittleEndian.Uint32(a), binary.LittleEndian.Uint32(b)
	switch {
	case x < y:
		return -1
	case x > y:
		return 1
	}
	return 0
}

func newSL(cmp string) slI {
	switch cmp {
	case "bytesle":
		return &slOf[[]byte]{m: skiplist.NewSkipListMap[[]byte, int](leCmp{}),
			// offset 250: the ranks -1 .. 8 of the enumerated orders straddle a byte boundary (249 .. 258), where little-endian and lexicographic order differ
			enc: func(r int) []byte { b := make([]byte, 4); binary.LittleEndian.PutUint32(b, uint32(r+250)); return b },
			dec: func(b []byte) int { return int(binary.LittleEndian.Uint32(b)) - 250 }}
	case "intdiff":
		return &slOf[int]{m: skiplist.NewSkipListMap[int, int](diffCmp{}), enc: func(r int) int { return r }, dec: func(k int) int { return k }}
	case "string":
		return &slOf[string]{m: skiplist.NewSkipListMap[string, int](skiplist.OrderedComparator[string]{}), enc: rkString,
			dec: func(s string) int { var n int; fmt.Sscanf(s, "%d", &n); return n - 1000 }}
	case "bytes":
		return &slOf[[]byte]{m: skiplist.NewSkipListMap[[]byte, int](skiplist.BytesComparator{}), enc: rkBytes,
			dec: func(b []byte) int { return int(binary.BigEndian.Uint32(b)) - 1000 }}
	}
	return &slOf[int]{m: skiplist.NewSkipListMap[int, int](skiplist.OrderedComparator[int]{}), enc: func(r int) int { return r }, dec: func(k int) int { return k }}
}

type sliceIter struct {
	keys []int
	pos  int
	ctx  int
}

func (s *sliceIter) Next() (int, int, error) {
	if s.pos >= len(s.keys) {
		return 0, 0, pq.Done
	}
	k := s.keys[s.pos]
	s.pos++
	return k, k*100 + s.ctx, nil
}
func (s *sliceIter) Context() int { return s.ctx }

func runSorted(args []string) error {
	var in sortedIn
	if err := readJSON(args[0], &in); err != nil {
		return err
	}
	tr, err := newTrace(args[1])
	if err != nil {
		return err
	}
	defer tr.close()
	for ci, c := range in.Cases {
		tr.emit(M{"t": "reset", "case": ci})
		if c.Kind == "pq" {
			var its []pq.IteratorWithContext[int, int, int]
			for i, inp := range c.Inputs {
				its = append(its, &sliceIter{keys: inp, ctx: i + 1})
			}
			out := [][]int{}
			es := ""
			var cmpr skiplist.Comparator[int] = skiplist.OrderedComparator[int]{}
			if c.Cmp == "intdiff" {
				cmpr = diffCmp{}
			}
			q, err := pq.NewPriorityQueue[int, int, int](cmpr, its)
			if err != nil {
				es = err.Error()
			} else {
				for n := 0; n < 100000; n++ {
					k, v, ctx, err := q.Next()
					if errors.Is(err, pq.Done) {
						break
					}
					if err != nil {
						es = err.Error()
						break
					}
					if v != k*100+ctx {
						es = "value does not belong to the reported input"
						break
					}
					out = append(out, []int{k, ctx})
				}
			}
			inputs := c.Inputs
			if inputs == nil {
				inputs = [][]int{}
			}
			tr.emit(M{"t": "pq", "inputs": inputs, "out": out, "err": es})
			continue
		}
		sl := newSL(c.Cmp)
		for _, r := range c.Inserts {
			sl.insert(r)
		}
		keys := c.Inserts
		if keys == nil {
			keys = []int{}
		}
		tr.emit(M{"t": "inserted", "keys": keys, "size": sl.size(), "cmp": c.Cmp})
		for _, p := range c.Probes {
			tr.emit(M{"t": "contains", "k": p, "r": sl.contains(p)})
			v, ok := sl.get(p)
			tr.emit(M{"t": "get", "k": p, "found": ok, "v": v})
			out, e := sl.iterFrom(p)
			tr.emit(M{"t": "iterfrom", "k": p, "out": out, "err": e})
		}
		out, e := sl.iter()
		tr.emit(M{"t": "iter", "out": out, "err": e})
		for _, r := range c.Ranges {
			out, e := sl.between(r[0], r[1])
			tr.emit(M{"t": "between", "lo": r[0], "hi": r[1], "out": out, "err": e})
		}
		if c.Live != nil {
			out, e := sl.live(c.Live)
			late := c.Live.Late
			if late == nil {
				late = []int{}
			}
			tr.emit(M{"t": "live", "kind": c.Live.Kind, "lo": c.Live.Lo, "hi": c.Live.Hi, "pre": c.Live.Pre, "late": late, "out": out, "err": e})
			all := append(append([]int{}, keys...), late...)
			tr.emit(M{"t": "inserted", "keys": all, "size": sl.size(), "cmp": c.Cmp})
			out, e = sl.iter()
			tr.emit(M{"t": "iter", "out": out, "err": e})
		}
	}
	return nil
}
