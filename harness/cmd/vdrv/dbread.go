package main

import (
	"encoding/json"
	"errors"
	"fmt"
	"io"
	"io/fs"
	"log"
	"os"
	"os/exec"
	"path/filepath"
	"time"

	"github.com/thomasjungblut/go-sstables/simpledb"
)

// engine "dbread": the real recovery as an observer. Opens each given directory with default options (compactions disabled),
// reads the first n keys, closes; prints one JSON line per directory. Runs in its own process so that a hang or a panic of
// the recovery is an observable outcome of the image, not a failure of the harness.

type readResult struct {
	Dir string   `json:"dir"`
	Ok  bool     `json:"ok"`
	Err string   `json:"err"`
	M   []string `json:"m"`
	// the image as the disk state of SimpleDBDisk.tla, decoded before the recovery touched it
	Disk *diskImage `json:"disk,omitempty"`
	// "" or what went wrong when work continued after the recovery: one more Put, a regular flush, all keys read, clean restart, all keys read
	Cont string `json:"cont"`
}

type dbreadIn struct {
	Keys []string `json:"keys"`
	N    int      `json:"n"`
	Dirs []string `json:"dirs"`
	// decode every image into the specification's disk state first
	Decode bool `json:"decode"`
	// continue to work after the recovery (Put + flush + read + restart + read) and compare with what the recovery itself showed
	Cont bool `json:"cont"`
}

func init() { register("dbread", runDBRead) }

func readAll(db *simpledb.DB, keys [][]byte, n int) []string {
	m := []string{}
	for i := 0; i < n && i < len(keys); i++ {
		v, err := db.GetBytes(keys[i])
		switch {
		case errors.Is(err, simpledb.ErrNotFound):
			m = append(m, "none")
		case err != nil:
			m = append(m, "err:"+err.Error())
		default:
			m = append(m, valToken(v))
		}
	}
	return m
}

// the session that recovered the directory goes on working: its first regular flush and a clean restart must keep what was recovered
func continueAfterRecovery(db *simpledb.DB, dir string, keys [][]byte, n int, recovered []string) string {
	if n < 1 || len(keys) < n {
		return ""
	}
	want := append([]string{}, recovered...)
	marker := valBytes("cont", 3)
	if err := db.PutBytes(keys[n-1], marker); err != nil {
		return "put after recovery: " + err.Error()
	}
	want[n-1] = valToken(marker)
	// the process is "killed" right after this acknowledged Put (the first append of the recovering session to its log)
	if kerr := killCopy(dir, keys, n, want, "recovery + put + kill"); kerr != "" {
		return kerr
	}
	if err := db.VerifRotate(); err != nil {
		return "rotation after recovery: " + err.Error()
	}
	db.VerifFlushBarrier()
	if got := readAll(db, keys, n); fmt.Sprint(got) != fmt.Sprint(want) {
		return fmt.Sprintf("after the first flush of the recovering session: %v, expected %v", got, want)
	}
	// one more acknowledged Put (it lands in the log file the rotation switched to), then the process is "killed" once more
	marker2 := valBytes("cont", 4)
	if err := db.PutBytes(keys[0], marker2); err != nil {
		return "second put after recovery: " + err.Error()
	}
	want[0] = valToken(marker2)
	if kerr := killCopy(dir, keys, n, want, "recovery + flush + put + kill"); kerr != "" {
		return kerr
	}
	if err := db.Close(); err != nil {
		return "close: " + err.Error()
	}
	db2, err := simpledb.NewSimpleDB(dir, simpledb.DisableCompactions())
	if err == nil {
		err = db2.Open()
	}
	if err != nil {
		return "restart after recovery + flush: " + err.Error()
	}
	defer db2.Close()
	if got := readAll(db2, keys, n); fmt.Sprint(got) != fmt.Sprint(want) {
		return fmt.Sprintf("after recovery + flush + restart: %v, expected %v", got, want)
	}
	return ""
}

// killCopy: a copy of the directory taken at a quiescent instant (flusher idle, no compactor, every Put acknowledged through the synchronous log)
// is what a kill at that instant leaves; it must open and hold everything acknowledged so far
func killCopy(dir string, keys [][]byte, n int, want []string, what string) string {
	kdir := dir + ".kill"
	os.RemoveAll(kdir)
	if err := copyTree(dir, kdir); err != nil {
		return ""
	}
	defer os.RemoveAll(kdir)
	dbk, err := simpledb.NewSimpleDB(kdir, simpledb.DisableCompactions())
	if err == nil {
		err = dbk.Open()
	}
	if err != nil {
		return "open after " + what + ": " + err.Error()
	}
	defer dbk.Close()
	if got := readAll(dbk, keys, n); fmt.Sprint(got) != fmt.Sprint(want) {
		return fmt.Sprintf("after %s: %v, expected %v", what, got, want)
	}
	return ""
}

func readOne(dir string, keys [][]byte, n int, decode bool, cont bool) (res readResult) {
	res.Dir = dir
	res.M = []string{}
	if decode {
		img := decodeDisk(dir, keys, n)
		res.Disk = &img
	}
	defer func() {
		if r := recover(); r != nil {
			res.Ok = false
			res.Err = fmt.Sprintf("panic: %v", r)
		}
	}()
	db, err := simpledb.NewSimpleDB(dir, simpledb.DisableCompactions())
	if err != nil {
		res.Err = "new: " + err.Error()
		return
	}
	if err := db.Open(); err != nil {
		res.Err = "open: " + err.Error()
		return
	}
	res.M = readAll(db, keys, n)
	if cont {
		// (closes the handle itself on its way)
		res.Cont = continueAfterRecovery(db, dir, keys, n, res.M)
		db.Close()
		res.Ok = true
		return
	}
	if err := db.Close(); err != nil {
		res.Err = "close: " + err.Error()
		return
	}
	res.Ok = true
	return
}

func runDBRead(args []string) error {
	if len(args) != 1 {
		return fmt.Errorf("usage: dbread <in.json>")
	}
	var in dbreadIn
	if err := readJSON(args[0], &in); err != nil {
		return err
	}
	log.SetOutput(io.Discard)
	keys := make([][]byte, len(in.Keys))
	for i, h := range in.Keys {
		keys[i] = unhex(h)
	}
	enc := json.NewEncoder(os.Stdout)
	for _, d := range in.Dirs {
		enc.Encode(readOne(d, keys, in.N, in.Decode, in.Cont))
	}
	return nil
}

// readImage runs the dbread engine of this very binary in a child process under a deadline.
func readImage(dir string, keys [][]byte, n int, deadline time.Duration) readResult {
	in := dbreadIn{N: n, Dirs: []string{dir}}
	for _, k := range keys {
		in.Keys = append(in.Keys, fmt.Sprintf("%x", k))
	}
	f, err := os.CreateTemp("", "dbread-*.json")
	if err != nil {
		return readResult{Dir: dir, Err: "harness: " + err.Error(), M: []string{}}
	}
	defer os.Remove(f.Name())
	json.NewEncoder(f).Encode(in)
	f.Close()
	cmd := exec.Command(os.Args[0], "dbread", f.Name())
	out := make(chan []byte, 1)
	go func() {
		b, _ := cmd.Output()
		out <- b
	}()
	select {
	case b := <-out:
		var r readResult
		if err := json.Unmarshal(b, &r); err != nil {
			return readResult{Dir: dir, Err: "recovery process died: " + string(b), M: []string{}}
		}
		return r
	case <-time.After(deadline):
		if cmd.Process != nil {
			cmd.Process.Kill()
		}
		return readResult{Dir: dir, Err: "hang: recovery did not finish", M: []string{}}
	}
}

func copyTree(src, dst string) error {
	return filepath.WalkDir(src, func(p string, d fs.DirEntry, err error) error {
		if err != nil {
			return err
		}
		rel, _ := filepath.Rel(src, p)
		t := filepath.Join(dst, rel)
		if d.IsDir() {
			return os.MkdirAll(t, 0o700)
		}
		b, err := os.ReadFile(p)
		if err != nil {
			return err
		}
		return os.WriteFile(t, b, 0o600)
	})
}
