package main

import (
	"encoding/json"
	"errors"
	"fmt"
	"io"
	"io/fs"
	"log"
	"os"
	"os/exec"
	"path/filepath"
	"time"

	"github.com/thomasjungblut/go-sstables/simpledb"
)

// engine "dbread": the real recovery as an observer. Opens each given directory with default options (compactions disabled),
// reads the first n keys, closes; prints one JSON line per directory. Runs in its own process so that a hang or a panic of
// the recovery is an observable outcome of the image, not a failure of the harness.

type readResult struct {
	Dir string   `json:"dir"`
	Ok  bool     `json:"ok"`
	Err string   `json:"err"`
	M   []string `json:"m"`
	// the image as the disk state of SimpleDBDisk.tla, decoded before the recovery touched it
	Disk *diskImage `json:"disk,omitempty"`
}

type dbreadIn struct {
	Keys []string `json:"keys"`
	N    int      `json:"n"`
	Dirs []string `json:"dirs"`
	// decode every image into the specification's disk state first
	Decode bool `json:"decode"`
}

func init() { register("dbread", runDBRead) }

func readOne(dir string, keys [][]byte, n int, decode bool) (res readResult) {
	res.Dir = dir
	res.M = []string{}
	if decode {
		img := decodeDisk(dir, keys, n)
		res.Disk = &img
	}
	defer func() {
		if r := recover(); r != nil {
			res.Ok = false
			res.Err = fmt.Sprintf("panic: %v", r)
		}
	}()
	db, err := simpledb.NewSimpleDB(dir, simpledb.DisableCompactions())
	if err != nil {
		res.Err = "new: " + err.Error()
		return
	}
	if err := db.Open(); err != nil {
		res.Err = "open: " + err.Error()
		return
	}
	for i := 0; i < n && i < len(keys); i++ {
		v, err := db.GetBytes(keys[i])
		switch {
		case errors.Is(err, simpledb.ErrNotFound):
			res.M = append(res.M, "none")
		case err != nil:
			res.M = append(res.M, "err:"+err.Error())
		default:
			res.M = append(res.M, valToken(v))
		}
	}
	if err := db.Close(); err != nil {
		res.Err = "close: " + err.Error()
		return
	}
	res.Ok = true
	return
}

func runDBRead(args []string) error {
	if len(args) != 1 {
		return fmt.Errorf("usage: dbread <in.json>")
	}
	var in dbreadIn
	if err := readJSON(args[0], &in); err != nil {
		return err
	}
	log.SetOutput(io.Discard)
	keys := make([][]byte, len(in.Keys))
	for i, h := range in.Keys {
		keys[i] = unhex(h)
	}
	enc := json.NewEncoder(os.Stdout)
	for _, d := range in.Dirs {
		enc.Encode(readOne(d, keys, in.N, in.Decode))
	}
	return nil
}

// readImage runs the dbread engine of this very binary in a child process under a deadline.
func readImage(dir string, keys [][]byte, n int, deadline time.Duration) readResult {
	in := dbreadIn{N: n, Dirs: []string{dir}}
	for _, k := range keys {
		in.Keys = append(in.Keys, fmt.Sprintf("%x", k))
	}
	f, err := os.CreateTemp("", "dbread-*.json")
	if err != nil {
		return readResult{Dir: dir, Err: "harness: " + err.Error(), M: []string{}}
	}
	defer os.Remove(f.Name())
	json.NewEncoder(f).Encode(in)
	f.Close()
	cmd := exec.Command(os.Args[0], "dbread", f.Name())
	out := make(chan []byte, 1)
	go func() {
		b, _ := cmd.Output()
		out <- b
	}()
	select {
	case b := <-out:
		var r readResult
		if err := json.Unmarshal(b, &r); err != nil {
			return readResult{Dir: dir, Err: "recovery process died: " + string(b), M: []string{}}
		}
		return r
	case <-time.After(deadline):
		if cmd.Process != nil {
			cmd.Process.Kill()
		}
		return readResult{Dir: dir, Err: "hang: recovery did not finish", M: []string{}}
	}
}

func copyTree(src, dst string) error {
	return filepath.WalkDir(src, func(p string, d fs.DirEntry, err error) error {
		if err != nil {
			return err
		}
		rel, _ := filepath.Rel(src, p)
		t := filepath.Join(dst, rel)
		if d.IsDir() {
			return os.MkdirAll(t, 0o700)
		}
		b, err := os.ReadFile(p)
		if err != nil {
			return err
		}
		return os.WriteFile(t, b, 0o600)
	})
}
