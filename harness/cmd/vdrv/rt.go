package main

import "runtime"

func runtimeGosched() { runtime.Gosched() }
