package main

import (
	"errors"
	"fmt"
	"io"
	"os"
	"path/filepath"
	"sort"
	"strconv"
	"strings"

	"github.com/thomasjungblut/go-sstables/recordio"
	rProto "github.com/thomasjungblut/go-sstables/recordio/proto"
	"github.com/thomasjungblut/go-sstables/simpledb"
	dbproto "github.com/thomasjungblut/go-sstables/simpledb/proto"
	"github.com/thomasjungblut/go-sstables/skiplist"
	"github.com/thomasjungblut/go-sstables/sstables"
	"google.golang.org/protobuf/proto"
)

// Abstraction function from a database directory to the disk state of SimpleDBDisk.tla (DiskImageTrace.tla): WAL files as operation
// sequences, table directories as maps with their stage (incomplete / complete / broken), the compaction directory with its stage,
// inputs and merged content.  It is evaluated on a crash image BEFORE the real recovery runs on it; TLC then evaluates the
// specification's RecMap / OpenFails on the decoded state and compares with what the real Open produced.

type diskTable struct {
	G      int      `json:"g"`
	Ok     bool     `json:"ok"`     // metadata file present and not empty
	Broken bool     `json:"broken"` // metadata present but the table cannot be read
	Data   []string `json:"data"`   // per key rank: token | "tomb" | "none"
}

type diskOp struct {
	K int    `json:"k"`
	V string `json:"v"`
}

type diskWal struct {
	N   int      `json:"n"`
	Ops []diskOp `json:"ops"`
	Cut bool     `json:"cut"` // reading ended with an error instead of end-of-file (cut tail)
}

type diskComp struct {
	St     string   `json:"st"` // none | partial | complete | flagged
	Inputs []int    `json:"inputs"`
	Data   []string `json:"data"`
}

type diskImage struct {
	Wals    []diskWal   `json:"wals"`
	Tables  []diskTable `json:"tables"`
	Comp    diskComp    `json:"comp"`
	Unknown []string    `json:"unknown"` // anything the abstraction has no place for (the judge rejects the image as not decodable)
}

func noneData(n int) []string {
	d := make([]string, n)
	for i := range d {
		d[i] = "none"
	}
	return d
}

func readTableData(dir string, rank map[string]int, n int) (data []string, err error) {
	defer func() {
		if r := recover(); r != nil {
			err = fmt.Errorf("panic: %v", r)
		}
	}()
	rd, err := sstables.NewSSTableReader(sstables.ReadBasePath(dir), sstables.ReadWithKeyComparator(skiplist.BytesComparator{}))
	if err != nil {
		return nil, err
	}
	defer rd.Close()
	it, err := rd.Scan()
	if err != nil {
		return nil, err
	}
	data = noneData(n)
	for {
		k, v, err := it.Next()
		if errors.Is(err, sstables.Done) {
			break
		}
		if err != nil {
			return nil, err
		}
		i, ok := rank[string(k)]
		if !ok || i >= n {
			continue
		}
		if len(v) == 0 {
			data[i] = "tomb"
		} else {
			data[i] = valToken(v)
		}
	}
	return data, nil
}

func genOfDir(name string) (int, bool) {
	if !strings.HasPrefix(name, simpledb.SSTablePrefix+"_") {
		return 0, false
	}
	g, err := strconv.Atoi(name[len(simpledb.SSTablePrefix)+1:])
	return g, err == nil
}

func metaPresent(dir string) bool {
	st, err := os.Stat(filepath.Join(dir, sstables.MetaFileName))
	return err == nil && st.Size() > 0
}

func decodeDisk(root string, keys [][]byte, n int) (img diskImage) {
	img.Wals, img.Tables, img.Unknown = []diskWal{}, []diskTable{}, []string{}
	img.Comp = diskComp{St: "none", Inputs: []int{}, Data: noneData(n)}
	rank := map[string]int{}
	for i, k := range keys {
		rank[string(k)] = i
	}
	ents, err := os.ReadDir(root)
	if err != nil {
		return
	}
	ncomp := 0
	for _, e := range ents {
		p := filepath.Join(root, e.Name())
		switch {
		case e.IsDir() && e.Name() == simpledb.WriteAheadFolder:
			ws, _ := os.ReadDir(p)
			for _, w := range ws {
				num, err := strconv.Atoi(strings.TrimSuffix(w.Name(), ".wal"))
				if err != nil || !strings.HasSuffix(w.Name(), ".wal") {
					img.Unknown = append(img.Unknown, "wal/"+w.Name())
					continue
				}
				img.Wals = append(img.Wals, decodeWal(filepath.Join(p, w.Name()), num, rank, n))
			}
		case e.IsDir() && strings.HasPrefix(e.Name(), simpledb.SSTableCompactionPathPrefix):
			ncomp++
			if ncomp > 1 {
				img.Unknown = append(img.Unknown, "second compaction directory "+e.Name())
				continue
			}
			img.Comp = decodeComp(root, p, rank, n)
		case e.IsDir() && strings.HasPrefix(e.Name(), simpledb.SSTablePrefix):
			g, ok := genOfDir(e.Name())
			if !ok {
				img.Unknown = append(img.Unknown, e.Name())
				continue
			}
			t := diskTable{G: g, Ok: metaPresent(p), Data: noneData(n)}
			if t.Ok {
				d, err := readTableData(p, rank, n)
				if err != nil {
					t.Broken = true
				} else {
					t.Data = d
				}
			}
			img.Tables = append(img.Tables, t)
		default:
			if e.Name() == "LOCK" && !e.IsDir() {
				continue // a foreign file the application keeps in the directory (session kind "foreignfile"): no part of the disk model
			}
			img.Unknown = append(img.Unknown, e.Name())
		}
	}
	sort.Slice(img.Wals, func(i, j int) bool { return img.Wals[i].N < img.Wals[j].N })
	sort.Slice(img.Tables, func(i, j int) bool { return img.Tables[i].G < img.Tables[j].G })
	return
}

func decodeWal(path string, num int, rank map[string]int, n int) (w diskWal) {
	w = diskWal{N: num, Ops: []diskOp{}}
	defer func() {
		if r := recover(); r != nil {
			w.Cut = true
		}
	}()
	rd, err := recordio.NewFileReaderWithPath(path)
	if err != nil {
		w.Cut = true
		return
	}
	if err := rd.Open(); err != nil {
		w.Cut = true
		return
	}
	defer rd.Close()
	for {
		rec, err := rd.ReadNext()
		if err != nil {
			w.Cut = !errors.Is(err, io.EOF)
			return
		}
		m := &dbproto.WalMutation{}
		if err := proto.Unmarshal(rec, m); err != nil {
			w.Cut = true
			return
		}
		var k []byte
		v := "tomb"
		switch u := m.Mutation.(type) {
		case *dbproto.WalMutation_Addition:
			k = u.Addition.KeyBytes
			if len(k) == 0 {
				k = []byte(u.Addition.Key)
				v = valToken([]byte(u.Addition.Value))
			} else {
				v = valToken(u.Addition.ValueBytes)
			}
		case *dbproto.WalMutation_DeleteTombStone:
			k = u.DeleteTombStone.KeyBytes
			if len(k) == 0 {
				k = []byte(u.DeleteTombStone.Key)
			}
		}
		if i, ok := rank[string(k)]; ok && i < n {
			w.Ops = append(w.Ops, diskOp{K: i, V: v})
		}
	}
}

func decodeComp(root, dir string, rank map[string]int, n int) diskComp {
	c := diskComp{St: "partial", Inputs: []int{}, Data: noneData(n)}
	if metaPresent(dir) {
		c.St = "complete"
	}
	meta := readCompactionFlag(filepath.Join(dir, simpledb.CompactionFinishedSuccessfulFileName))
	if meta == nil {
		return c
	}
	c.St = "flagged"
	for _, p := range meta.SstablePaths {
		g, ok := genOfDir(filepath.Base(p))
		if !ok {
			g = -1
		}
		c.Inputs = append(c.Inputs, g)
	}
	if d, err := readTableData(dir, rank, n); err == nil {
		c.Data = d
	} else {
		c.St = "flagged-unreadable"
	}
	return c
}

func readCompactionFlag(path string) (meta *dbproto.CompactionMetadata) {
	defer func() {
		if r := recover(); r != nil {
			meta = nil
		}
	}()
	if _, err := os.Stat(path); err != nil {
		return nil
	}
	rd, err := rProto.NewReader(rProto.ReaderPath(path))
	if err != nil {
		return nil
	}
	if err := rd.Open(); err != nil {
		return nil
	}
	defer rd.Close()
	m := &dbproto.CompactionMetadata{}
	if _, err := rd.ReadNext(m); err != nil {
		return nil
	}
	return m
}
