package main

import (
	"encoding/json"
	"fmt"
	"os"

	"github.com/thomasjungblut/go-sstables/recordio"
	"github.com/thomasjungblut/go-sstables/wal"
)

// engine "wal": a WAL-only session (Append / AppendSync / Rotate / Close) recorded with one trace line per call boundary, to be run under
// strace; engine "walreplay": the real replay as an observer of directory images (C07).

type walOp struct {
	Op  string `json:"op"` // append | appendsync | rotate | close
	Rec string `json:"rec"`
}

type walIn struct {
	Recs    map[string]string `json:"recs"`
	Dir     string            `json:"dir"`
	MaxSize uint64            `json:"maxsize"`
	WBuf    int               `json:"wbuf"`
	Comp    int               `json:"comp"`
	Ops     []walOp           `json:"ops"`
	Dirs    []string          `json:"dirs"` // walreplay
}

func init() { register("wal", runWAL); register("walreplay", runWALReplay) }

func walOptions(in *walIn, dir string) (*wal.Options, error) {
	return wal.NewWriteAheadLogOptions(wal.BasePath(dir), wal.MaximumWalFileSizeBytes(in.MaxSize),
		wal.WriterFactory(func(path string) (recordio.WriterI, error) {
			opts := []recordio.FileWriterOption{recordio.Path(path), recordio.CompressionType(in.Comp)}
			if in.WBuf > 0 {
				opts = append(opts, recordio.BufferSizeBytes(in.WBuf))
			}
			return recordio.NewFileWriter(opts...)
		}),
		wal.ReaderFactory(func(path string) (recordio.ReaderI, error) { return recordio.NewFileReaderWithPath(path) }))
}

func runWAL(args []string) error {
	var in walIn
	if err := readJSON(args[0], &in); err != nil {
		return err
	}
	tr, err := newTrace(args[1])
	if err != nil {
		return err
	}
	defer tr.close()
	emit := func(m M) { tr.emit(m); tr.w.Flush() }
	if err := os.MkdirAll(in.Dir, 0o700); err != nil {
		return err
	}
	opts, err := walOptions(&in, in.Dir)
	if err != nil {
		return err
	}
	emit(M{"t": "reset", "case": 0})
	w, err := wal.NewWriteAheadLog(opts)
	if err != nil {
		return err
	}
	for _, op := range in.Ops {
		emit(M{"t": "inv", "op": op.Op, "rec": op.Rec})
		var err error
		switch op.Op {
		case "append":
			err = w.Append(walRec(&in, op.Rec))
		case "appendsync":
			err = w.AppendSync(walRec(&in, op.Rec))
		case "rotate":
			_, err = w.Rotate()
		case "close":
			err = w.Close()
		}
		es := ""
		if err != nil {
			es = err.Error()
		}
		emit(M{"t": "ret", "op": op.Op, "err": es})
	}
	return nil
}

func runWALReplay(args []string) error {
	var in walIn
	if err := readJSON(args[0], &in); err != nil {
		return err
	}
	tokOf := map[string]string{}
	for t, h := range in.Recs {
		tokOf[string(unhex(h))] = t
	}
	enc := json.NewEncoder(os.Stdout)
	for _, d := range in.Dirs {
		out := []string{}
		res := M{"dir": d, "ok": true, "err": ""}
		func() {
			defer func() {
				if r := recover(); r != nil {
					res["ok"], res["err"] = false, fmt.Sprintf("panic: %v", r)
				}
			}()
			opts, err := walOptions(&in, d)
			if err != nil {
				res["ok"], res["err"] = false, err.Error()
				return
			}
			rp, err := wal.NewReplayer(opts)
			if err != nil {
				res["ok"], res["err"] = false, err.Error()
				return
			}
			err = rp.Replay(func(rec []byte) error {
				if rec == nil {
					out = append(out, "NIL")
				} else if t, ok := tokOf[string(rec)]; ok {
					out = append(out, t)
				} else {
					out = append(out, fmt.Sprintf("UNKNOWN(len=%d)", len(rec)))
				}
				return nil
			})
			if err != nil {
				res["ok"], res["err"] = false, err.Error()
			}
		}()
		res["out"] = out
		enc.Encode(res)
	}
	return nil
}

// the record bytes of a token; the token "NIL" is the nil record
func walRec(in *walIn, tok string) []byte {
	if tok == "NIL" {
		return nil
	}
	return unhex(in.Recs[tok])
}
