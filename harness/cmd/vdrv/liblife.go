package main

import (
	"errors"
	"fmt"
	"io"
	"os"
	"path/filepath"

	"github.com/thomasjungblut/go-sstables/recordio"
)

// engine "liblife": call sequences enumerated by TLC from LibLifecycle.tla are executed on ONE real file writer / file reader / mmap reader in
// whatever phase it is in (new, open, closed); every reply is recorded as ok / err / panic / record token / EOF, and for the writer what a fresh
// reader finds in the file afterwards.

type lifeSeq struct {
	Kind string   `json:"kind"` // fw | fr | mm
	Ops  []string `json:"ops"`
}

type lifeIn struct {
	Dir  string    `json:"dir"`
	Seqs []lifeSeq `json:"seqs"`
}

func init() { register("liblife", runLibLife) }

func lifeCall(f func() (string, error)) (r string) {
	defer func() {
		if p := recover(); p != nil {
			r = fmt.Sprintf("panic:%v", p)
		}
	}()
	s, err := f()
	if errors.Is(err, io.EOF) {
		return "EOF"
	}
	if err != nil {
		return "err"
	}
	return s
}

func readBack(path string) []string {
	r, err := recordio.NewFileReaderWithPath(path)
	if err != nil {
		return []string{"UNREADABLE"}
	}
	if err := r.Open(); err != nil {
		r.Close()
		return []string{"UNREADABLE"}
	}
	defer r.Close()
	out := []string{}
	for {
		b, err := r.ReadNext()
		if errors.Is(err, io.EOF) {
			return out
		}
		if err != nil {
			return append(out, "err:"+err.Error())
		}
		out = append(out, string(b))
	}
}

func runLibLife(args []string) error {
	var in lifeIn
	if err := readJSON(args[0], &in); err != nil {
		return err
	}
	tr, err := newTrace(args[1])
	if err != nil {
		return err
	}
	defer tr.close()
	// the file the readers work on: three records r1 r2 r3
	fixed := filepath.Join(in.Dir, "three.rio")
	var offs []uint64
	{
		w, err := recordio.NewFileWriter(recordio.Path(fixed))
		if err != nil {
			return err
		}
		if err := w.Open(); err != nil {
			return err
		}
		for _, t := range []string{"r1", "r2", "r3"} {
			off, err := w.Write([]byte(t))
			if err != nil {
				return err
			}
			offs = append(offs, off)
		}
		if err := w.Close(); err != nil {
			return err
		}
	}
	for si, s := range in.Seqs {
		calls := []M{}
		final := []string{"NA"}
		switch s.Kind {
		case "fw":
			path := filepath.Join(in.Dir, fmt.Sprintf("w%d.rio", si))
			w, err := recordio.NewFileWriter(recordio.Path(path), recordio.CompressionType(si%4))
			if err != nil {
				return err
			}
			for ci, op := range s.Ops {
				tok := fmt.Sprintf("w%d", ci+1)
				r := lifeCall(func() (string, error) {
					switch op {
					case "open":
						return "ok", w.Open()
					case "write":
						_, err := w.Write([]byte(tok))
						return "ok", err
					case "writesync":
						_, err := w.WriteSync([]byte(tok))
						return "ok", err
					case "seekhdr":
						return "ok", w.Seek(3)
					case "close":
						return "ok", w.Close()
					}
					return "", fmt.Errorf("unknown op %s", op)
				})
				calls = append(calls, M{"op": op, "r": r})
			}
			lifeCall(func() (string, error) { return "", w.Close() }) // the object is abandoned: whatever is buffered gets its chance
			final = readBack(path)
			os.Remove(path)
		case "fr":
			rd, err := recordio.NewFileReaderWithPath(fixed)
			if err != nil {
				return err
			}
			for _, op := range s.Ops {
				r := lifeCall(func() (string, error) {
					switch op {
					case "open":
						return "ok", rd.Open()
					case "read":
						b, err := rd.ReadNext()
						return string(b), err
					case "skip":
						return "ok", rd.SkipNext()
					case "close":
						return "ok", rd.Close()
					}
					return "", fmt.Errorf("unknown op %s", op)
				})
				calls = append(calls, M{"op": op, "r": r})
			}
			lifeCall(func() (string, error) { return "", rd.Close() })
		case "mm":
			rd, err := recordio.NewMemoryMappedReaderWithPath(fixed)
			if err != nil {
				return err
			}
			for _, op := range s.Ops {
				r := lifeCall(func() (string, error) {
					switch op {
					case "open":
						return "ok", rd.Open()
					case "at2":
						b, err := rd.ReadNextAt(offs[1])
						return string(b), err
					case "seek0":
						_, b, err := rd.SeekNext(0)
						return string(b), err
					case "close":
						return "ok", rd.Close()
					}
					return "", fmt.Errorf("unknown op %s", op)
				})
				calls = append(calls, M{"op": op, "r": r})
			}
			lifeCall(func() (string, error) { return "", rd.Close() })
		default:
			return fmt.Errorf("unknown kind %q", s.Kind)
		}
		tr.emit(M{"t": "life", "kind": s.Kind, "calls": calls, "final": final})
	}
	return nil
}
