package main

import (
	"sort"
	"errors"
	"fmt"
	"os"
	"path/filepath"

	"github.com/thomasjungblut/go-sstables/recordio"
	"github.com/thomasjungblut/go-sstables/skiplist"
	"github.com/thomasjungblut/go-sstables/sstables"
	"github.com/thomasjungblut/go-sstables/wal"
)

// engine "reslib" (C19, library level): life cycles of table readers / RecordIO readers and writers / WAL replay with complete and
// abandoned scans; descriptors and mappings under the working directory are observed before and after Close.

type reslibCase struct {
	Kind string   `json:"kind"` // table | recordio | mmap | wal | super
	Ops  []string `json:"ops"`  // scan | scanabandon | range | rangeabandon | get | readsome | readall
	N    int      `json:"n"`
	Loader string `json:"loader"` // table / super: index loader ("" default | disk | map | skiplist | slice)
	Hash   string `json:"hash"`   // "" (verify on load) | read (verify on read)
	Damage string `json:"damage"` // tablefail: "trunc" | "flip" - the open is expected to fail and must not keep anything open
	// kind "scripts": interleaved life cycles of several scanners on ONE reader (behaviours of Scanners.tla), one reader per script
	Scripts [][]scanEv `json:"scripts"`
}

type scanEv struct {
	A string `json:"a"` // new | step | drain | close
	S int    `json:"s"`
}

type reslibIn struct {
	Dir   string       `json:"dir"`
	Cases []reslibCase `json:"cases"`
}

func init() { register("reslib", runResLib) }

func runResLib(args []string) error {
	var in reslibIn
	if err := readJSON(args[0], &in); err != nil {
		return err
	}
	tr, err := newTrace(args[1])
	if err != nil {
		return err
	}
	defer tr.close()
	cmp := skiplist.BytesComparator{}
	key := func(i int) []byte { return []byte(fmt.Sprintf("key-%05d", i)) }
	mkTable := func(dir string, n int) error {
		os.MkdirAll(dir, 0o700)
		w, err := sstables.NewSSTableStreamWriter(sstables.WriteBasePath(dir), sstables.WithKeyComparator(cmp))
		if err != nil {
			return err
		}
		if err := w.Open(); err != nil {
			return err
		}
		for i := 0; i < n; i++ {
			if err := w.WriteNext(key(i), []byte(fmt.Sprintf("value-%d", i))); err != nil {
				return err
			}
		}
		return w.Close()
	}
	obs := func(ci int, closed bool, bound int, what string) {
		tr.emit(M{"t": "libobs", "case": ci, "closed": closed, "fds": countFds(in.Dir), "maps": countMaps(in.Dir), "bound": bound, "what": what})
	}
	for ci, c := range in.Cases {
		tr.emit(M{"t": "reset", "case": ci})
		base := filepath.Join(in.Dir, fmt.Sprintf("l%d", ci))
		os.MkdirAll(base, 0o700)
		n := c.N
		if n == 0 {
			n = 50
		}
		switch c.Kind {
		case "table", "super":
			var rd sstables.SSTableReaderI
			ntab := 1
			if c.Kind == "super" {
				ntab = 3
			}
			var rds []sstables.SSTableReaderI
			for t := 0; t < ntab; t++ {
				d := filepath.Join(base, fmt.Sprintf("t%d", t))
				if err := mkTable(d, n); err != nil {
					return err
				}
				ropts := []sstables.ReadOption{sstables.ReadBasePath(d), sstables.ReadWithKeyComparator(cmp)}
				switch c.Loader {
				case "disk":
					ropts = append(ropts, sstables.ReadIndexLoader(&sstables.DiskIndexLoader{}))
				case "map":
					ropts = append(ropts, sstables.ReadIndexLoader(&sstables.MapKeyIndexLoader[string]{ReadBufferSize: 4096, Mapper: strMapper{}}))
				case "skiplist":
					ropts = append(ropts, sstables.ReadIndexLoader(&sstables.SkipListIndexLoader{KeyComparator: cmp, ReadBufferSize: 4096}))
				case "slice":
					ropts = append(ropts, sstables.ReadIndexLoader(&sstables.SliceKeyIndexLoader{ReadBufferSize: 4096}))
				}
				if c.Hash == "read" {
					ropts = append(ropts, sstables.SkipHashCheckOnLoad(), sstables.EnableHashCheckOnReads())
				}
				r, err := sstables.NewSSTableReader(ropts...)
				if err != nil {
					return err
				}
				rds = append(rds, r)
			}
			rd = rds[0]
			if c.Kind == "super" {
				rd = sstables.NewSuperSSTableReader(rds, cmp)
			}
			obs(ci, false, 2*ntab, "opened")
			for _, op := range c.Ops {
				var it sstables.SSTableIteratorI
				var err error
				switch op {
				case "scan", "scanabandon":
					it, err = rd.Scan()
				case "range", "rangeabandon":
					it, err = rd.ScanRange(key(n/4), key(n/2))
				case "get":
					rd.Get(key(n / 3))
					rd.Contains(key(n / 3))
					continue
				}
				if err != nil {
					continue
				}
				limit := 1 << 30
				if op == "scanabandon" || op == "rangeabandon" {
					limit = 3
				}
				for i := 0; i < limit; i++ {
					if _, _, err := it.Next(); errors.Is(err, sstables.Done) || err != nil {
						break
					}
				}
			}
			// scanners opened from the reader may hold one descriptor each until Close
			obs(ci, false, 2*ntab+2*len(c.Ops)*ntab, "after scans")
			rd.Close()
			obs(ci, true, 0, "closed")
		case "scripts":
			d := filepath.Join(base, "t0")
			if err := mkTable(d, n); err != nil {
				return err
			}
			for si, script := range c.Scripts {
				rd, err := sstables.NewSSTableReader(sstables.ReadBasePath(d), sstables.ReadWithKeyComparator(cmp))
				if err != nil {
					return err
				}
				its := map[int]sstables.SSTableIteratorI{}
				for _, e := range script {
					switch e.A {
					case "new":
						if it, err := rd.Scan(); err == nil {
							its[e.S] = it
						}
					case "step":
						if it := its[e.S]; it != nil {
							it.Next()
						}
					case "drain":
						if it := its[e.S]; it != nil {
							for i := 0; i < 1<<20; i++ {
								if _, _, err := it.Next(); err != nil {
									break
								}
							}
						}
					case "close":
						obs(ci, false, 2+2*len(its), fmt.Sprintf("script %d before Close", si))
						rd.Close()
					}
				}
				obs(ci, true, 0, fmt.Sprintf("script %d closed", si))
			}
		case "tablefail":
			// a table that cannot be opened (damaged data file): the failed open must not keep descriptors or mappings
			d := filepath.Join(base, "t0")
			if err := mkTable(d, n); err != nil {
				return err
			}
			dp := filepath.Join(d, sstables.DataFileName)
			data, _ := os.ReadFile(dp)
			if c.Damage == "trunc" {
				os.WriteFile(dp, data[:len(data)/2], 0o600)
			} else {
				data[len(data)-3] ^= 0x55
				os.WriteFile(dp, data, 0o600)
			}
			for _, ld := range []string{"", "disk"} {
				ropts := []sstables.ReadOption{sstables.ReadBasePath(d), sstables.ReadWithKeyComparator(cmp)}
				if ld == "disk" {
					ropts = append(ropts, sstables.ReadIndexLoader(&sstables.DiskIndexLoader{}))
				}
				r, err := openReaderSafe(ropts...)
				if err == nil {
					r.Close()
				}
				// C19 speaks about Close; what a FAILED open leaves behind is recorded, not judged (DESIGN section 6, observations)
				tr.emit(M{"t": "note", "name": fmt.Sprintf("open of damaged table (%s, loader %q): failed=%v, left open: fds=%d maps=%d", c.Damage, ld, err != nil,
					countFds(in.Dir), countMaps(in.Dir))})
			}
			// later cases count descriptors under the same directory: run the failed opens in a child-free way by forcing a GC of nothing -
			// the leaked mapping (if any) stays, so these cases come LAST in the case list
		case "recordio", "mmap":
			p := filepath.Join(base, "f.rio")
			w, err := recordio.NewFileWriter(recordio.Path(p))
			if err != nil {
				return err
			}
			w.Open()
			obs(ci, false, 1, "writer open")
			for i := 0; i < n; i++ {
				w.Write(key(i))
			}
			w.Close()
			obs(ci, true, 0, "writer closed")
			if c.Kind == "recordio" {
				r, err := recordio.NewFileReaderWithPath(p)
				if err != nil {
					return err
				}
				r.Open()
				for i := 0; i < 3; i++ {
					r.ReadNext()
				}
				obs(ci, false, 1, "reader open")
				r.Close()
			} else {
				r, err := recordio.NewMemoryMappedReaderWithPath(p)
				if err != nil {
					return err
				}
				r.Open()
				r.SeekNext(0)
				obs(ci, false, 2, "mmap reader open")
				r.Close()
			}
			obs(ci, true, 0, "reader closed")
		case "wal":
			d := filepath.Join(base, "wal")
			os.MkdirAll(d, 0o700)
			opts, err := wal.NewWriteAheadLogOptions(wal.BasePath(d), wal.MaximumWalFileSizeBytes(200))
			if err != nil {
				return err
			}
			w, err := wal.NewWriteAheadLog(opts)
			if err != nil {
				return err
			}
			for i := 0; i < n; i++ {
				w.AppendSync(key(i))
			}
			// rotated files must not stay open
			obs(ci, false, 1, "wal open after rotations")
			w.Close()
			obs(ci, true, 0, "wal closed")
			cnt := 0
			w2, _ := wal.NewReplayer(opts)
			w2.Replay(func(b []byte) error { cnt++; return nil })
			obs(ci, true, 0, "after replay")
			// a replay that is aborted by its callback must release the files as well
			w2.Replay(func(b []byte) error { return errors.New("stop") })
			obs(ci, true, 0, "after aborted replay")
			// the newest file cut inside its last record (torn tail after a kill): the tolerated end of the replay releases the file too
			ws, _ := filepath.Glob(filepath.Join(d, "*.wal"))
			sort.Strings(ws)
			if len(ws) > 0 {
				if st, err := os.Stat(ws[len(ws)-1]); err == nil && st.Size() > 12 {
					os.Truncate(ws[len(ws)-1], st.Size()-3)
				}
			}
			w3, _ := wal.NewReplayer(opts)
			rerr := w3.Replay(func(b []byte) error { return nil })
			tr.emit(M{"t": "note", "name": fmt.Sprintf("replay of a log with a torn tail: err=%v", rerr)})
			obs(ci, true, 0, "after replay of a torn tail")
		}
		os.RemoveAll(base)
	}
	return nil
}
