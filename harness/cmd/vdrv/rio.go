package main

import (
	"encoding/binary"
	"errors"
	"fmt"
	"io"
	"os"
	"path/filepath"
	"strings"

	"github.com/thomasjungblut/go-sstables/recordio"
)

// engine "rio": executes writer programs (Write / WriteSync / Seek / Close) on a real RecordIO file, reads it back through every
// reader and access path, and - for C12 - damages copies of the file (every truncation length, every record-header byte, file header
// fields) and records what the readers return. Observations only.

type rioOp struct {
	Op  string `json:"op"`  // write | writesync | seek | close
	Rec string `json:"rec"` // record token (NIL, EMPTY, rN)
	J   int    `json:"j"`   // seek: index of the record boundary (number of records kept)
}

type rioCase struct {
	Ops      []rioOp `json:"ops"`
	Comp     int     `json:"comp"`
	WBuf     int     `json:"wbuf"`
	RBuf     int     `json:"rbuf"`
	DirectIO bool    `json:"directio"`
	ReadProg []int   `json:"readprog"` // 1 = ReadNext, 0 = SkipNext (cycled)
	SeekAll  bool    `json:"seekall"`  // SeekNext from every byte offset (else sampled offsets)
	Seeks    []int   `json:"seeks"`
	Damage   string  `json:"damage"` // "", "trunc", "header", "fileheader"
	DmgStep  int     `json:"dmgstep"`
	WFile    string  `json:"wfile"`  // "" (Path option) | "append" | "rdwr" | "wronly": the writer gets an *os.File the caller opened with these flags (File option)
	Proto    bool    `json:"proto"`  // the protobuf access path (package recordio/proto): see rioproto.go
	Legacy   int     `json:"legacy"` // 1..3: the file is laid out in that older format version by the harness (the library only reads these)
}

type rioIn struct {
	Recs  map[string]string `json:"recs"` // token -> hex payload
	Dir   string            `json:"dir"`
	Cases []rioCase         `json:"cases"`
}

func init() { register("rio", runRIO) }

func runRIO(args []string) error {
	if len(args) != 2 {
		return fmt.Errorf("usage: rio <in.json> <out.ndjson>")
	}
	var in rioIn
	if err := readJSON(args[0], &in); err != nil {
		return err
	}
	tr, err := newTrace(args[1])
	if err != nil {
		return err
	}
	defer tr.close()
	recs := map[string][]byte{}
	tokOf := map[string]string{}
	for t, h := range in.Recs {
		recs[t] = unhex(h)
		tokOf[string(recs[t])] = t
	}
	rb := func(t string) []byte {
		switch t {
		case "NIL":
			return nil
		case "EMPTY":
			return []byte{}
		}
		return recs[t]
	}
	rt := func(b []byte) string {
		if b == nil {
			return "NIL"
		}
		if len(b) == 0 {
			return "EMPTY"
		}
		if t, ok := tokOf[string(b)]; ok {
			return t
		}
		return fmt.Sprintf("UNKNOWN(len=%d)", len(b))
	}
	errTok := func(err error) string {
		if errors.Is(err, io.EOF) {
			return "EOF"
		}
		return "err:" + err.Error()
	}

	for ci, c := range in.Cases {
		path := filepath.Join(in.Dir, fmt.Sprintf("f%d.rio", ci))
		tr.emit(M{"t": "reset", "case": ci})
		var offs []uint64 // start offsets of the surviving records
		realWriter := func() ([]uint64, bool, error) {
			var offs []uint64
			wopts := []recordio.FileWriterOption{recordio.Path(path), recordio.CompressionType(c.Comp)}
			if c.WFile != "" {
				flags := map[string]int{"append": os.O_WRONLY | os.O_CREATE | os.O_APPEND, "rdwr": os.O_RDWR | os.O_CREATE, "wronly": os.O_WRONLY | os.O_CREATE | os.O_TRUNC}[c.WFile]
				f, ferr := os.OpenFile(path, flags, 0o600)
				if ferr != nil {
					return nil, false, ferr
				}
				wopts = []recordio.FileWriterOption{recordio.File(f), recordio.CompressionType(c.Comp)}
			}
			if c.WBuf > 0 {
				wopts = append(wopts, recordio.BufferSizeBytes(c.WBuf))
			}
			if c.DirectIO {
				wopts = append(wopts, recordio.DirectIO())
			}
			w, err := recordio.NewFileWriter(wopts...)
			if err != nil {
				return nil, false, err
			}
			if err := w.Open(); err != nil {
				tr.emit(M{"t": "w", "op": "open", "rec": "", "j": 0, "off": 0, "size": 0, "target": 0, "err": err.Error()})
				return nil, false, nil
			}
			// a companion writer (same buffer size and compression) is open next to the writer under test and gets one record per step: two files written
			// side by side must not see each other's bytes (whatever earlier writers - each closed twice - handed back)
			var comp recordio.WriterI
			ncomp := 0
			cpath := path + ".companion"
			if !c.DirectIO {
				copts := []recordio.FileWriterOption{recordio.Path(cpath), recordio.CompressionType(c.Comp)}
				if c.WBuf > 0 {
					copts = append(copts, recordio.BufferSizeBytes(c.WBuf))
				}
				if cw, err := recordio.NewFileWriter(copts...); err == nil && cw.Open() == nil {
					comp = cw
				}
			}
			defer func() {
				if comp == nil {
					return
				}
				comp.Close()
				comp.Close()
				ok := true
				got := readPlain(cpath)
				if len(got) != ncomp {
					ok = false
				}
				for i := range got {
					if i < ncomp && got[i] != fmt.Sprintf("companion-%06d", i) {
						ok = false
					}
				}
				if !ok {
					tr.emit(M{"t": "w", "op": "companion", "rec": "", "j": 0, "off": 0, "size": 0, "target": 0, "err": fmt.Sprintf("companion file holds %d records (first %.40q), %d written", len(got), append(got, "")[0], ncomp)})
				}
				os.Remove(cpath)
			}()
			closed := false
			for _, op := range c.Ops {
				if comp != nil {
					if _, err := comp.Write([]byte(fmt.Sprintf("companion-%06d", ncomp))); err == nil {
						ncomp++
					}
				}
				switch op.Op {
				case "write", "writesync":
					var off uint64
					var err error
					if op.Op == "write" {
						off, err = w.Write(rb(op.Rec))
					} else {
						off, err = w.WriteSync(rb(op.Rec))
					}
					es := ""
					if err != nil {
						es = err.Error()
					} else {
						offs = append(offs, off)
					}
					tr.emit(M{"t": "w", "op": op.Op, "rec": op.Rec, "j": 0, "off": int(off), "size": int(w.Size()), "target": 0, "err": es})
				case "seek":
					var target uint64
					if op.J >= len(offs) {
						target = w.Size()
					} else {
						target = offs[op.J]
					}
					err := w.Seek(target)
					es := ""
					if err != nil {
						es = err.Error()
					} else if op.J < len(offs) {
						offs = offs[:op.J]
					}
					tr.emit(M{"t": "w", "op": "seek", "rec": "", "j": op.J, "off": 0, "size": int(w.Size()), "target": int(target), "err": es})
				case "close":
					err := w.Close()
					closed = true
					es := ""
					if err != nil {
						es = err.Error()
					}
					st, _ := os.Stat(path)
					tr.emit(M{"t": "w", "op": "close", "rec": "", "j": 0, "off": 0, "size": int(st.Size()), "target": 0, "err": es, "dio": c.DirectIO})
				}
			}
			if !closed {
				w.Close()
			}
			w.Close() // closed twice (defer + explicit)
			return offs, true, nil

		}
		if c.Proto {
			if err := runProtoCase(tr, path, c, rb, tokOf, errTok); err != nil {
				return err
			}
			continue
		}
		if c.Legacy > 0 {
			var lerr error
			offs, lerr = writeLegacy(tr, path, c, rb)
			if lerr != nil {
				return lerr
			}
		} else {
			var ok bool
			var werr error
			offs, ok, werr = realWriter()
			if werr != nil {
				return werr
			}
			if !ok {
				continue
			}
		}
		data, err := os.ReadFile(path)
		if err != nil {
			return err
		}

		// how: "" (path + options) | "file" (NewFileReaderWithFile) | "dio" (the direct-I/O reader factory)
		seqReadHow := func(p string, prog []int, how string) ([]string, string) {
			out := []string{}
			ropts := []recordio.FileReaderOption{recordio.ReaderPath(p)}
			if c.RBuf > 0 {
				ropts = append(ropts, recordio.ReaderBufferSizeBytes(c.RBuf))
			}
			var r recordio.ReaderI
			var err error
			switch how {
			case "file":
				var f *os.File
				if f, err = os.Open(p); err == nil {
					r, err = recordio.NewFileReaderWithFile(f)
				}
			case "dio":
				r, err = recordio.NewFileReader(recordio.ReaderPath(p), recordio.ReaderIoFactory(recordio.DirectIOFactory{}), recordio.ReaderBufferSizeBytes(4096))
			default:
				r, err = recordio.NewFileReader(ropts...)
			}
			if err != nil {
				return out, "openerr:" + err.Error()
			}
			if err := r.Open(); err != nil {
				return out, "openerr:" + err.Error()
			}
			defer r.Close()
			defer r.Close() // (closed twice)
			for i := 0; i < 100000; i++ {
				if len(prog) > 0 && prog[i%len(prog)] == 0 {
					if err := r.SkipNext(); err != nil {
						return out, errTok(err)
					}
					out = append(out, "skipped")
					continue
				}
				b, err := r.ReadNext()
				if err != nil {
					return out, errTok(err)
				}
				out = append(out, rt(b))
			}
			return out, "err:reader does not end"
		}
		seqRead := func(p string, prog []int) ([]string, string) { return seqReadHow(p, prog, "") }

		if c.Damage == "" {
			// sequential: all ReadNext, then the read/skip program
			out, end := seqRead(path, nil)
			tr.emit(M{"t": "seq", "prog": []int{}, "out": out, "end": end})
			// the other ways to get a sequential reader: from an open file, through the direct-I/O factory (where O_DIRECT is available)
			out, end = seqReadHow(path, nil, "file")
			tr.emit(M{"t": "seq", "prog": []int{}, "out": out, "end": end})
			if ci%3 == 0 {
				if ok, _ := recordio.IsDirectIOAvailable(); ok {
					if out, end = seqReadHow(path, nil, "dio"); !strings.HasPrefix(end, "openerr:") {
						tr.emit(M{"t": "seq", "prog": []int{}, "out": out, "end": end})
					}
				}
			}
			if len(c.ReadProg) > 0 {
				out, end := seqRead(path, c.ReadProg)
				tr.emit(M{"t": "seq", "prog": c.ReadProg, "out": out, "end": end})
			}
			// random access
			mr, err := recordio.NewMemoryMappedReaderWithPath(path)
			if err == nil {
				err = mr.Open()
			}
			if err != nil {
				tr.emit(M{"t": "mmapopen", "err": err.Error()})
			} else {
				for i, off := range offs {
					b, err := mr.ReadNextAt(off)
					r := ""
					if err != nil {
						r = errTok(err)
					} else {
						r = rt(b)
					}
					tr.emit(M{"t": "at", "i": i + 1, "off": int(off), "r": r})
				}
				froms := c.Seeks
				if c.SeekAll && len(data) <= 1500 {
					froms = froms[:0]
					for o := 0; o <= len(data)+1; o++ {
						froms = append(froms, o)
					}
				} else if c.SeekAll {
					// bigger files: every offset around every record boundary (and inside the first bytes of every record) + the given ones
					for _, off := range offs {
						for d := -3; d <= 12; d++ {
							if int(off)+d >= 0 {
								froms = append(froms, int(off)+d)
							}
						}
					}
					// the mmap reader scans windows of 4096 bytes: let the marker of every record straddle the end of the first window
					for _, off := range offs {
						for d := 4093; d <= 4097; d++ {
							if int(off)-d >= 0 {
								froms = append(froms, int(off)-d)
							}
						}
					}
					froms = append(froms, len(data)-1, len(data), len(data)+1)
				}
				if c.Legacy == 1 {
					froms = nil // SeekNext is documented as unsupported below version 2
				}
				for _, o := range froms {
					roff, b, err := mr.SeekNext(uint64(o))
					r := ""
					if err != nil {
						r = errTok(err)
					} else {
						r = rt(b)
					}
					tr.emit(M{"t": "seeknext", "from": o, "roff": int(roff), "r": r})
				}
				mr.Close()
			}
			os.Remove(path)
			continue
		}

		// ---- damage (C12) ----
		dpath := path + ".dmg"
		probe := func(kind string, fields M, content []byte) {
			if err := os.WriteFile(dpath, content, 0o600); err != nil {
				return
			}
			out, end := seqRead(dpath, nil)
			at := []string{}
			mr, err := recordio.NewMemoryMappedReaderWithPath(dpath)
			if err == nil {
				err = mr.Open()
			}
			mopen := ""
			if err != nil {
				mopen = "openerr:" + err.Error()
			} else {
				for _, off := range offs {
					b, err := mr.ReadNextAt(off)
					if err != nil {
						at = append(at, "err")
					} else {
						at = append(at, rt(b))
					}
				}
				mr.Close()
			}
			m := M{"t": kind, "out": out, "end": end, "at": at, "mmapopen": mopen}
			for k, v := range fields {
				m[k] = v
			}
			tr.emit(m)
		}
		step := c.DmgStep
		if step < 1 {
			step = 1
		}
		switch c.Damage {
		case "trunc":
			for n := 0; n < len(data); n += step {
				probe("trunc", M{"n": n}, data[:n])
			}
		case "header":
			for i, off := range offs {
				hl := headerLen(data[off:])
				for p := 0; p < hl; p++ {
					vals := []byte{data[int(off)+p] ^ 0x01, data[int(off)+p] ^ 0x80, 0x00, 0xff, 0x91, 0x8d, 0x4c}
					if step == 1 {
						vals = vals[:0]
						for v := 0; v < 256; v++ {
							vals = append(vals, byte(v))
						}
					}
					for _, v := range vals {
						if v == data[int(off)+p] {
							continue
						}
						cp := append([]byte{}, data...)
						cp[int(off)+p] = v
						probe("hdr", M{"i": i + 1, "p": p, "val": int(v)}, cp)
					}
				}
			}
		case "fileheader":
			for _, ver := range []uint32{0, 5, 6, 255, 256, 0xffffffff} {
				cp := append([]byte{}, data...)
				binary.LittleEndian.PutUint32(cp[0:4], ver)
				probe("fhdr", M{"field": "version", "val": fmt.Sprint(ver)}, cp)
			}
			for _, ct := range []uint32{4, 5, 255, 0xffffffff} {
				cp := append([]byte{}, data...)
				binary.LittleEndian.PutUint32(cp[4:8], ct)
				probe("fhdr", M{"field": "compression", "val": fmt.Sprint(ct)}, cp)
			}
		}
		os.Remove(dpath)
		os.Remove(path)
	}
	return nil
}

// length of a v4 record header starting at b: marker uvarint, nil flag, uvarint ulen, uvarint clen, uvarint crc (independent decoder)
func headerLen(b []byte) int {
	n := 0
	_, k := binary.Uvarint(b)
	if k <= 0 {
		return 0
	}
	n += k + 1
	for i := 0; i < 3; i++ {
		_, k := binary.Uvarint(b[n:])
		if k <= 0 {
			return n
		}
		n += k
	}
	return n
}

// writeLegacy lays the records that survive the writer program out in format version 1, 2 or 3 (framing as documented in the repository's
// recordio/README.md and implemented by the read side): file header = version + compression code, record = header + stored payload.
// It emits the same "w" lines the real writer would have produced, with the offsets of this layout.
func writeLegacy(tr *traceWriter, path string, c rioCase, rb func(string) []byte) ([]uint64, error) {
	var toks []string
	for _, op := range c.Ops {
		switch op.Op {
		case "write", "writesync":
			toks = append(toks, op.Rec)
		case "seek":
			if op.J < len(toks) {
				toks = toks[:op.J]
			}
		}
	}
	comp, err := recordio.NewCompressorForType(c.Comp)
	if err != nil {
		return nil, err
	}
	file := make([]byte, 8)
	binary.LittleEndian.PutUint32(file[0:4], uint32(c.Legacy))
	binary.LittleEndian.PutUint32(file[4:8], uint32(c.Comp))
	var offs []uint64
	for _, t := range toks {
		rec := rb(t)
		stored := rec
		if comp != nil && rec != nil {
			if stored, err = comp.Compress(rec); err != nil {
				return nil, err
			}
		}
		clen := uint64(0)
		if comp != nil {
			clen = uint64(len(stored))
		}
		off := uint64(len(file))
		switch c.Legacy {
		case 1:
			h := make([]byte, 20)
			binary.LittleEndian.PutUint32(h[0:4], recordio.MagicNumberSeparator)
			binary.LittleEndian.PutUint64(h[4:12], uint64(len(rec)))
			binary.LittleEndian.PutUint64(h[12:20], clen)
			file = append(file, h...)
		case 2:
			file = binary.AppendUvarint(file, recordio.MagicNumberSeparatorLong)
			file = binary.AppendUvarint(file, uint64(len(rec)))
			file = binary.AppendUvarint(file, clen)
		case 3:
			file = binary.AppendUvarint(file, recordio.MagicNumberSeparatorLong)
			if rec == nil {
				file = append(file, 1)
				clen = 0
			} else {
				file = append(file, 0)
			}
			file = binary.AppendUvarint(file, uint64(len(rec)))
			file = binary.AppendUvarint(file, clen)
		default:
			return nil, fmt.Errorf("legacy version %d", c.Legacy)
		}
		if !(c.Legacy == 3 && rec == nil) {
			file = append(file, stored...)
		}
		offs = append(offs, off)
		tr.emit(M{"t": "w", "op": "write", "rec": t, "j": 0, "off": int(off), "size": len(file), "target": 0, "err": ""})
	}
	if err := os.WriteFile(path, file, 0o600); err != nil {
		return nil, err
	}
	tr.emit(M{"t": "w", "op": "close", "rec": "", "j": 0, "off": 0, "size": len(file), "target": 0, "err": "", "dio": false})
	return offs, nil
}

// readPlain reads every record of a file as a string (empty slice when the file cannot be read)
func readPlain(path string) []string {
	out := []string{}
	r, err := recordio.NewFileReaderWithPath(path)
	if err != nil {
		return out
	}
	if err := r.Open(); err != nil {
		r.Close()
		return out
	}
	defer r.Close()
	for {
		b, err := r.ReadNext()
		if err != nil {
			return out
		}
		out = append(out, string(b))
	}
}
